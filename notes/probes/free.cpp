#include "coloquinte.hpp"
#include <iostream>
#include <unistd.h>
#include <fcntl.h>
using namespace coloquinte;
static Circuit mk(){ int n=7; Circuit c(n); c.setCellWidth({2,3,2,4,2,0,0}); c.setCellHeight({4,4,8,4,4,0,0}); c.setCellX({0,30,7,-5,12,5,230}); c.setCellY({0,9,3,20,1,150,10}); c.setCellIsFixed({false,false,false,true,false,true,true}); c.setupRows(Rectangle(0,240,0,160),4); c.addNet({0,1,2,5},{0,1,2,0},{0,1,3,0}); c.addNet({1,3,6},{0,0,0},{2,2,0},2.0f); c.addNet({2,4,0,3},{1,1,1,1},{0,0,0,0}); c.addNet({4,6},{0,0},{0,0}); c.addNet({0,5},{0,0},{0,0}); return c; }
int main(){ int devnull=open("/dev/null",O_WRONLY); dup2(devnull,1); for(int r=0;r<5;r++){ ColoquinteParameters p(3,7); p.global.maxNbSteps=10; p.global.gapTolerance=0.0; p.global.distanceTolerance=0.0; Circuit c=mk(); int k=0; c.placeGlobal(p,[&](PlacementStep){k++;}); std::cerr<<"callbacks "<<k<<"\n"; } return 0; }
