// probe: BFS state count over DetailedPlacement swap/insert histories
#include "place_detailed/detailed_placement.hpp"
#include <iostream>
#include <set>
#include <deque>
#include <sstream>
using namespace coloquinte;
struct Op{ int kind,a,b,c; };
int main(){ std::vector<Row> rows={Row(0,5,0,1,CellOrientation::N),Row(0,2,1,2,CellOrientation::FS),Row(3,5,1,2,CellOrientation::FS),Row(0,5,2,3,CellOrientation::N)};
 std::vector<int> w={1,2,2,3}; std::vector<int> x={0,1,3,0}, y={0,0,1,2}; std::vector<CellOrientation> o={CellOrientation::N,CellOrientation::N,CellOrientation::N,CellOrientation::FS}; std::vector<CellRowPolarity> pol={CellRowPolarity::ANY,CellRowPolarity::SAME,CellRowPolarity::ANY,CellRowPolarity::OPPOSITE}; std::vector<int> idx={0,1,2,3};
 auto build=[&](const std::vector<Op>&h){ DetailedPlacement p(rows,w,x,y,o,pol,idx); for(auto&op:h){ if(op.kind==0) p.swap(op.a,op.b); else p.insert(op.a,op.b,op.c);} return p; };
 auto canon=[&](const DetailedPlacement&p){ std::ostringstream s; for(int c=0;c<p.nbCells();c++) s<<p.cellRow(c)<<","<<p.cellX(c)<<","<<p.cellPred(c)<<","<<(int)p.cellOrientation(c)<<";"; return s.str(); };
 std::set<std::string> seen; std::deque<std::vector<Op>> fr; fr.push_back({}); seen.insert(canon(build({}))); long long trans=0; size_t maxd=0; long long invalid=0;
 while(!fr.empty()){ auto h=fr.front(); fr.pop_front(); maxd=std::max(maxd,h.size()); DetailedPlacement p=build(h); std::vector<Op> ops; for(int a=0;a<4;a++) for(int b=a+1;b<4;b++) if(p.canSwap(a,b)) ops.push_back({0,a,b,0}); for(int c=0;c<4;c++) for(int r=0;r<p.nbRows();r++){ if(p.canInsert(c,r,-1)) ops.push_back({1,c,r,-1}); for(int q: p.rowCells(r)) if(p.canInsert(c,r,q)) ops.push_back({1,c,r,q}); }
   for(auto&op:ops){ auto h2=h; h2.push_back(op); DetailedPlacement q=build(h2); trans++; try{ q.check(); }catch(std::exception&e){ std::cout<<"check fails "<<e.what()<<"\n"; return 1;} for(int c=0;c<4;c++) if(q.cellOrientation(c)==CellOrientation::INVALID) invalid++; std::string k=canon(q); if(seen.insert(k).second) fr.push_back(h2); } }
 std::cout<<"states "<<seen.size()<<" transitions "<<trans<<" maxdepth "<<maxd<<" invalid-orient "<<invalid<<"\n"; }
