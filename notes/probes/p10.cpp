// probe C11: legalize twice
#include "coloquinte.hpp"
#include <iostream>
#include <random>
#include <map>
#include <sstream>
#include <unistd.h>
#include <fcntl.h>
using namespace coloquinte;
int main(int argc,char**argv){ int N=atoi(argv[1]); unsigned seed=atoi(argv[2]); int mode=atoi(argv[3]); std::mt19937 g(seed); auto R=[&](int a,int b){return (int)(a+g()%(b-a+1));};
 int devnull=open("/dev/null",O_WRONLY); int saved=dup(1); std::map<std::string,int> cnt; std::string ex;
 CellOrientation rowO[4]={CellOrientation::N,CellOrientation::FS,CellOrientation::S,CellOrientation::FN};
 for(int it=0;it<N;it++){ int rh=R(1,2); int nr=R(1,4); int W=R(3,10); std::vector<Row> rows; int y=0; for(int r=0;r<nr;r++){ if(R(0,5)==0) y+=rh; CellOrientation ro=(r%2?CellOrientation::FS:CellOrientation::N); if(R(0,4)==0){ int m=R(1,W-1); rows.emplace_back(0,m,y,y+rh,ro); if(m+1<W) rows.emplace_back(m+1,W,y,y+rh,ro);} else rows.emplace_back(0,W,y,y+rh,ro); y+=rh; }
  int n=R(1,6); Circuit c(n); std::vector<int> w(n),h(n),x(n),yy(n); std::vector<bool> fx(n); std::vector<CellRowPolarity> pol(n,CellRowPolarity::ANY); for(int i=0;i<n;i++){ fx[i]=R(0,5)==0; w[i]=R(1,3); h[i]=fx[i]?R(1,2*rh):rh; x[i]=R(-2,W+2); yy[i]=R(-2,y+2); if(mode>=1&&R(0,1)){ CellRowPolarity ps[4]={CellRowPolarity::SAME,CellRowPolarity::OPPOSITE,CellRowPolarity::NW,CellRowPolarity::SE}; pol[i]=ps[R(0,3)]; } }
  c.setCellWidth(w); c.setCellHeight(h); c.setCellX(x); c.setCellY(yy); c.setCellIsFixed(fx); c.setCellRowPolarity(pol); c.setRows(rows);
  ColoquinteParameters p(3,0); if(mode>=2){ p.legalization.orderingWidth=R(-10,20)/10.0; p.legalization.orderingY=R(-2,2)/10.0; p.legalization.orderingHeight=R(-20,20)/10.0; }
  dup2(devnull,1); std::string res="ok"; try{ c.legalize(p); auto s1=c.solution(); c.legalize(p); auto s2=c.solution(); bool same=true; for(int i=0;i<n;i++) if(s1[i].position.x!=s2[i].position.x||s1[i].position.y!=s2[i].position.y||s1[i].orientation!=s2[i].orientation) same=false; if(!same){ res="MOVED"; if(ex.empty()){ std::ostringstream s; s<<"ow "<<p.legalization.orderingWidth<<" oy "<<p.legalization.orderingY<<" rows:"; for(auto&r:rows) s<<" ["<<r.minX<<","<<r.maxX<<")x["<<r.minY<<","<<r.maxY<<")"; for(int i=0;i<n;i++) s<<"\n c"<<i<<" w"<<w[i]<<" h"<<h[i]<<(fx[i]?" F":"")<<" pol"<<toString(pol[i])<<" in "<<x[i]<<","<<yy[i]<<" s1 "<<s1[i].position.x<<","<<s1[i].position.y<<" s2 "<<s2[i].position.x<<","<<s2[i].position.y; ex=s.str(); } } }catch(std::exception&e){ res="throws"; }
  dup2(saved,1); cnt[res]++; }
 for(auto&k:cnt) std::cout<<k.second<<"\t"<<k.first<<"\n"; std::cout<<ex<<"\n"; }
