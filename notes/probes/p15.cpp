// probe C18: expansion invariants on enumerated small circuits
#include "coloquinte.hpp"
#include <iostream>
#include <cmath>
#include <map>
#include <string>
#include <sstream>
using namespace coloquinte;
int main(){ std::map<std::string,long long> cnt; std::map<std::string,std::string> exs;
 int hs[3]={2,4,0}; int ws[4]={0,1,3,7};
 for(int rowsN=1;rowsN<=2;rowsN++) for(int W=6;W<=14;W+=4) for(int obs=0;obs<3;obs++)
 for(int a=0;a<4*3;a++) for(int b=0;b<4*3;b++) for(int c3=0;c3<4*3;c3+=5) for(int fixedMask=0;fixedMask<4;fixedMask++)
 for(double target: {0.3,0.5,0.8,0.99}) for(double margin: {0.0,0.5,1.0}) for(double cap: {0.1,0.5,1.0}){
   int n=4; Circuit c(n); std::vector<int> w={ws[a%4],ws[b%4],ws[c3%4],obs==0?0:(obs==1?3:W)}, h={hs[a/4],hs[b/4],hs[c3/4],obs==2?1:2}; std::vector<bool> fx={(bool)(fixedMask&1),(bool)(fixedMask&2),false,true}; c.setCellWidth(w); c.setCellHeight(h); c.setCellIsFixed(fx); c.setCellX({0,0,0,2}); c.setCellY({0,0,0,0}); c.setupRows(Rectangle(0,W,0,2*rowsN),2);
   // oracle available area
   long long avail=0; { for(int r=0;r<rowsN;r++){ // free segments of row r: remove columns covered by fixed obstruction cell 3 if it overlaps row's y-range
        std::vector<char> freec(W,1); Rectangle o=c.placement(3); if(o.width()>0&&o.height()>0&&o.minY<2*r+2&&2*r<o.maxY) for(int x=std::max(0,o.minX);x<std::min(W,o.maxX);x++) freec[x]=0; int x=0; while(x<W){ if(!freec[x]){x++;continue;} int e=x; while(e<W&&freec[e]) e++; long long ww=e-x; long long hh=2; ww-= (long long)(2*margin*hh); /* same truncation as doc: margin in cell heights on both sides */ if(ww>0) avail+=ww*hh; x=e; } } }
   long long area0=0; for(int i=0;i<n;i++) if(!fx[i]) area0+=(long long)w[i]*h[i];
   Circuit d=c; d.expandCellsToDensity(target,margin,cap); std::string res="ok"; int maxRowW=W; double capW=maxRowW*cap; long long area1=0; int maxH=0; bool hitcap=false;
   for(int i=0;i<n;i++){ if(d.cellHeight()[i]!=h[i]) res="height changed"; if(fx[i]&&d.cellWidth()[i]!=w[i]) res="fixed changed"; if(!fx[i]){ area1+=(long long)d.cellWidth()[i]*h[i]; if(capW>=w[i]&&d.cellWidth()[i]<w[i]) res="narrower"; if(w[i]>0&&h[i]>0){ maxH=std::max(maxH,h[i]); if(d.cellWidth()[i]>=(int)capW) hitcap=true; } } }
   if(res=="ok"&&avail>0&&area0>0){ bool changed=area1!=area0; if(changed && area1>target*avail*(1+1e-9)+1e-6) res="over target"; if(changed&&!hitcap&&std::abs(area1-target*avail)>maxH+1e-6) res="not within one height"; if(false){ /* allowed only if all skipped */ bool any=false; for(int i=0;i<n;i++) if(!fx[i]&&w[i]>0&&h[i]>0) any=true; if(any&&!hitcap) res="unchanged although below target"; } }
   if(res=="ok"){ if(avail==0||area0==0){ if(area1!=area0) res="changed with zero area"; } }
   cnt[res]++; if(res!="ok"&&!exs.count(res)){ std::ostringstream s; s<<res<<": rows "<<rowsN<<" W "<<W<<" obs "<<obs<<" w "; for(int v:w)s<<v<<" "; s<<"h "; for(int v:h)s<<v<<" "; s<<"fx "<<fixedMask<<" target "<<target<<" margin "<<margin<<" cap "<<cap<<" avail "<<avail<<" area0 "<<area0<<" area1 "<<area1<<" new w "; for(int v:d.cellWidth()) s<<v<<" "; exs[res]=s.str(); }
 }
 for(auto&k:cnt) std::cout<<k.second<<"\t"<<k.first<<"\n"; for(auto&k:exs) std::cout<<k.second<<"\n"; }
