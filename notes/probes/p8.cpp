#include "coloquinte.hpp"
#include <iostream>
#include <unistd.h>
#include <fcntl.h>
using namespace coloquinte;
int main(int argc,char**argv){ int S=atoi(argv[1]); int n=atoi(argv[2]); int rows=atoi(argv[3]); int stage=atoi(argv[4]);
  int rh=10*S; int W=40*S; Circuit c(n); std::vector<int> w(n),h(n,rh),x(n),y(n); for(int i=0;i<n;i++){ w[i]=(2+i%3)*S; x[i]=((i*7)%40)*S - 5*S; y[i]=((i*13)%(rows*10))*S; }
  c.setCellWidth(w);c.setCellHeight(h);c.setCellX(x);c.setCellY(y); c.setupRows(Rectangle(0,W,0,rows*rh),rh);
  for(int i=0;i+1<n;i++) c.addNet({i,i+1,(i+2)%n},{0,S,2*S},{0,5*S,S});
  ColoquinteParameters p(3,0); int devnull=open("/dev/null",O_WRONLY); int saved=dup(1); dup2(devnull,1);
  try{ if(stage==0) c.placeGlobal(p); if(stage<=1) c.legalize(p); if(stage<=2) c.placeDetailed(p);}catch(std::exception&e){ dup2(saved,1); std::cout<<"EXC "<<e.what()<<"\n"; return 0;}
  dup2(saved,1); std::cout<<"done hpwl "<<c.hpwl()<<"\n"; }
