#include "coloquinte.hpp"
#include <iostream>
using namespace coloquinte;
int main(int argc,char**argv){ Circuit c(3); c.setCellWidth({3,2,5}); c.setCellHeight({2,2,4}); c.setCellX({1,4,10}); c.setCellY({0,2,6}); c.setCellIsFixed({false,false,true}); c.setCellOrientation({CellOrientation::S,CellOrientation::N,CellOrientation::FE});
 c.setRows({Row(0,10,0,2,CellOrientation::N),Row(0,10,2,4,CellOrientation::FS)}); c.addNet({0,1,2},{1,0,4},{0,2,3}); c.addNet({0,0},{0,3},{1,1}); c.exportIspd(argv[1]);
 std::cout<<"hpwl "<<c.hpwl()<<"\n"; for(int n=0;n<c.nbNets();n++) for(int i=0;i<c.nbPinsNet(n);i++) std::cout<<"net "<<n<<" pin cell "<<c.pinCell(n,i)<<" raw "<<c.pinXOffsets_[c.netLimits_[n]+i]<<","<<c.pinYOffsets_[c.netLimits_[n]+i]<<"\n"; }
