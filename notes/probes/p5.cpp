#include "place_global/transportation.hpp"
#include <iostream>
#include <functional>
#include <climits>
#include <string>
using namespace coloquinte;
int main(){ long long inst=0,infeas=0,subopt=0,thrown=0; std::string first;
 for(int ns=2;ns<=3;ns++) for(int nsrc=1;nsrc<=3;nsrc++){
  std::vector<long long> cap(ns),dem(nsrc); std::vector<std::vector<int>> cost(ns,std::vector<int>(nsrc));
  int ncost=ns*nsrc; 
  std::function<void(int)> recCost=[&](int k){ if(k==ncost){
      // demands and caps
      std::function<void(int)> recD=[&](int i){ if(i==nsrc){ std::function<void(int)> recC=[&](int j){ if(j==ns){ long long td=0,tc=0; for(auto d:dem)td+=d; for(auto c:cap)tc+=c; if(td>tc) return; inst++;
              TransportationProblem pb(cap,dem,cost); try{ pb.solve(); }catch(...){ thrown++; return; }
              bool ok=true; long long val=0; for(int s=0;s<nsrc;s++){ long long a=0; for(int j2=0;j2<ns;j2++){ long long x=pb.allocation(j2,s); if(x<0) ok=false; a+=x; val+=x*cost[j2][s]; } if(a!=dem[s]) ok=false; } for(int j2=0;j2<ns;j2++){ long long a=0; for(int s=0;s<nsrc;s++) a+=pb.allocation(j2,s); if(a>cap[j2]) ok=false; } if(!ok){ infeas++; return; }
              // brute force
              long long best=LLONG_MAX; std::vector<std::vector<long long>> al(ns,std::vector<long long>(nsrc,0)); std::vector<long long> rem=cap;
              std::function<void(int,int,long long,long long)> bf=[&](int s,int j3,long long left,long long v){ if(v>=best) return; if(s==nsrc){ best=v; return; } if(j3==ns-1){ if(left<=rem[j3]){ rem[j3]-=left; bf(s+1,0,s+1<nsrc?dem[s+1]:0,v+left*cost[j3][s]); rem[j3]+=left; } return; } for(long long x=0;x<=std::min(left,rem[j3]);x++){ rem[j3]-=x; bf(s,j3+1,left-x,v+x*cost[j3][s]); rem[j3]+=x; } };
              bf(0,0,dem[0],0);
              if(val!=best){ subopt++; if(first.empty()){ first="cap:"; for(auto c:cap) first+=" "+std::to_string(c); first+=" dem:"; for(auto d:dem) first+=" "+std::to_string(d); first+=" cost:"; for(auto&r:cost){ for(int c:r) first+=" "+std::to_string(c); first+=" |"; } first+=" got "+std::to_string(val)+" best "+std::to_string(best);} }
              return; } for(int c=1;c<=3;c++){ cap[j]=c; recC(j+1);} }; recC(0); return; } for(int d=1;d<=2;d++){ dem[i]=d; recD(i+1);} }; recD(0); return; }
    for(int c=0;c<=2;c++){ cost[k/nsrc][k%nsrc]=c; recCost(k+1);} };
  recCost(0); }
 std::cout<<"inst "<<inst<<" infeasible "<<infeas<<" subopt "<<subopt<<" thrown "<<thrown<<"\n"<<first<<"\n"; }
