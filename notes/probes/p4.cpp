// probe C12: exhaustive small instances of RowLegalizer vs brute force
#include "place_detailed/row_legalizer.hpp"
#include <iostream>
#include <vector>
#include <climits>
#include <map>
#include <functional>
#include <string>
using namespace coloquinte;
struct Res{ long long cost; };
long long brute(int b,int e,const std::vector<int>&w,const std::vector<int>&t){ int n=w.size(); // dp over position
  std::vector<long long> best(e-b+2,0); // best[p]= min cost of cells i.. with first free pos >= b+p
  // backward DP: f_i(p) = min over x>=p of w_i|x-t_i| + f_{i+1}(x+w_i)
  std::vector<long long> f(e-b+2,0); for(int p=0;p<=e-b;p++) f[p]=0; 
  for(int i=n-1;i>=0;i--){ std::vector<long long> nf(e-b+2,LLONG_MAX/4); for(int p=e-b;p>=0;p--){ long long v=LLONG_MAX/4; if(p+w[i]<=e-b && f[p+w[i]]<LLONG_MAX/4) v=(long long)w[i]*std::abs(b+p-t[i])+f[p+w[i]]; if(p+1<=e-b) v=std::min(v,nf[p+1]); nf[p]=v; } f=nf; }
  return f[0]; }
int main(){ int b=0; long long inst=0, bad_sum=0,bad_pred=0,bad_opt=0,bad_legal=0,bad_state=0; std::string first;
  for(int e=1;e<=6;e++) for(int n=1;n<=4;n++){ std::vector<int> w(n),t(n); 
    std::function<void(int,int)> rec=[&](int i,int used){ if(i==n){ inst++; RowLegalizer L(b,e); long long sum=0; bool ok=true; for(int k=0;k<n;k++){ auto pl0=L.getPlacement(); long long pred=L.getCost(w[k],t[k]); long long pred2=L.getCost(w[k],t[k]); auto pl1=L.getPlacement(); if(pl0!=pl1||pred!=pred2) bad_state++; long long c=L.push(w[k],t[k]); if(c!=pred){ bad_pred++; if(first.empty()){ first="pred"; for(int q=0;q<n;q++) first+=" ("+std::to_string(w[q])+","+std::to_string(t[q])+")"; first+=" e="+std::to_string(e)+" k="+std::to_string(k)+" pred="+std::to_string(pred)+" push="+std::to_string(c);} } sum+=c; }
        auto pl=L.getPlacement(); long long real=0; int prev=b; for(int k=0;k<n;k++){ if(pl[k]<prev||pl[k]+w[k]>e) ok=false; prev=pl[k]+w[k]; real+=(long long)w[k]*std::abs(pl[k]-t[k]); } if(!ok) bad_legal++; long long opt=brute(b,e,w,t); if(real!=opt) {bad_opt++; } if(sum!=opt){ bad_sum++; if(first.size()<5||first.substr(0,3)!="sum"){ if(first.empty()){ first="sum"; for(int q=0;q<n;q++) first+=" ("+std::to_string(w[q])+","+std::to_string(t[q])+")"; first+=" e="+std::to_string(e)+" sum="+std::to_string(sum)+" opt="+std::to_string(opt)+" real="+std::to_string(real);} } } return; }
      for(int ww=1;ww<=3&&used+ww<=e;ww++) for(int tt=-3;tt<=e+3;tt++){ w[i]=ww;t[i]=tt; rec(i+1,used+ww);} };
    rec(0,0); }
  std::cout<<"instances "<<inst<<" bad_legal "<<bad_legal<<" bad_opt "<<bad_opt<<" bad_sum "<<bad_sum<<" bad_pred "<<bad_pred<<" bad_state "<<bad_state<<"\n"<<first<<"\n"; }
