#include "coloquinte.hpp"
#include <iostream>
using namespace coloquinte;
int main(){ Circuit c(4); c.setCellWidth({1,1,0,0}); c.setCellHeight({2,2,2,2}); c.setCellIsFixed({true,false,false,true}); c.setCellX({0,0,0,2}); c.setCellY({0,0,0,0}); c.setupRows(Rectangle(0,6,0,2),2);
 for(auto r:c.computeRows()) std::cout<<r.toString()<<"\n"; c.expandCellsToDensity(0.8,0.5,0.5); for(int v:c.cellWidth()) std::cout<<v<<" "; std::cout<<"\n"; }
