# throwaway stand-in for the compiled module
import enum
class CellOrientation(enum.Enum):
    N=0; S=1; W=2; E=3; FN=4; FS=5; FW=6; FE=7
class CellRowPolarity(enum.Enum):
    ANY=0; SAME=1; OPPOSITE=2; NW=3; SE=4
class LegalizationModel(enum.Enum):
    L1=0
class NetModel(enum.Enum):
    BoundToBound=0
class PlacementStep(enum.Enum):
    LowerBound=0
class Rectangle:
    def __init__(self,min_x,max_x,min_y,max_y): self.min_x,self.max_x,self.min_y,self.max_y=min_x,max_x,min_y,max_y
    @property
    def width(self): return self.max_x-self.min_x
    @property
    def height(self): return self.max_y-self.min_y
class Row(Rectangle):
    def __init__(self,area,orientation): super().__init__(area.min_x,area.max_x,area.min_y,area.max_y); self.orientation=orientation
class _P:
    def __init__(self,*a,**k): pass
ColoquinteParameters=GlobalPlacerParameters=LegalizationParameters=DetailedPlacerParameters=_P
class Circuit:
    def __init__(self,nb_cells):
        self.nb_cells=nb_cells; self.cell_width=[0]*nb_cells; self.cell_height=[0]*nb_cells; self.cell_is_fixed=[False]*nb_cells; self.cell_is_obstruction=[True]*nb_cells
        self.cell_x=[0]*nb_cells; self.cell_y=[0]*nb_cells; self.cell_orientation=[CellOrientation.N]*nb_cells; self.cell_row_polarity=[CellRowPolarity.ANY]*nb_cells; self.rows=[]; self.nets=[]
    def add_net(self,cells,xs,ys,weight=1.0): self.nets.append((list(cells),list(xs),list(ys)))
    @property
    def row_height(self): return self.rows[0].height
    def check(self): pass
