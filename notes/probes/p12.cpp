// probe: BFS over HierarchicalDensityPlacement / DensityLegalizer op histories
#include "place_global/density_legalizer.hpp"
#include <iostream>
#include <set>
#include <deque>
#include <sstream>
using namespace coloquinte;
int main(int argc,char**argv){ int maxDepth=atoi(argv[1]);
 std::vector<Rectangle> regions={Rectangle(0,12,0,3),Rectangle(0,5,3,6),Rectangle(8,12,3,6),Rectangle(1,12,6,9)};
 std::vector<int> dem={3,6,2,0,9}; std::vector<std::vector<float>> tx={{1,11,5,0,6},{-4,30,6,0,6},{6,6,6,6,6}}, ty={{1,8,4,0,2},{20,-3,4,0,4},{4,4,4,4,4}};
 DensityLegalizer::Parameters P; P.nbSteps=1; P.lineReoptSize=2; P.lineReoptOverlap=1; P.diagReoptSize=2; P.diagReoptOverlap=1; P.squareReoptSize=2; P.squareReoptOverlap=1; P.unidimensionalTransport=true; P.costModel=LegalizationModel::L1;
 auto build=[&](const std::vector<int>&h){ DensityGrid g(3,regions); DensityLegalizer L(g,dem,P); L.updateCellTargetX(tx[0]); L.updateCellTargetY(ty[0]); for(int op:h){ switch(op){ case 0: L.refineX(); break; case 1: L.refineY(); break; case 2: L.coarsenX(); break; case 3: L.coarsenY(); break; case 4: L.improve(); break; case 5: L.refine(); break; case 6: L.run(); break; case 7: L.updateCellTargetX(tx[1]); L.updateCellTargetY(ty[1]); break; case 8: L.updateCellTargetX(tx[2]); L.updateCellTargetY(ty[2]); break; case 9: L.improveXTransport(); break; case 10: L.improveYTransport(); break; } } return L; };
 auto enabled=[&](const DensityLegalizer&L,int op){ switch(op){ case 0: return L.levelX()>0; case 1: return L.levelY()>0; case 2: return L.levelX()+1<L.nbLevelX(); case 3: return L.levelY()+1<L.nbLevelY(); case 5: return L.levelX()>0||L.levelY()>0; default: return true; } };
 auto canon=[&](const DensityLegalizer&L){ std::ostringstream s; s<<L.levelX()<<"/"<<L.levelY()<<"|"; for(int i=0;i<L.nbBinsX();i++) for(int j=0;j<L.nbBinsY();j++){ for(int c:L.binCells(i,j)) s<<c<<","; s<<";"; } s<<"|"; for(int c=0;c<L.nbCells();c++) s<<L.cellTargetX(c)<<","<<L.cellTargetY(c)<<" "; return s.str(); };
 std::set<std::string> seen; std::deque<std::vector<int>> fr; fr.push_back({}); { auto L=build({}); seen.insert(canon(L)); std::cout<<"grid "<<L.grid().nbBinsX()<<"x"<<L.grid().nbBinsY()<<" levels "<<L.nbLevelX()<<"/"<<L.nbLevelY()<<" cap "<<L.totalCapacity()<<"\n"; } long long trans=0;
 while(!fr.empty()){ auto h=fr.front(); fr.pop_front(); if((int)h.size()>=maxDepth) continue; auto L=build(h); for(int op=0;op<11;op++){ if(!enabled(L,op)) continue; auto h2=h; h2.push_back(op); auto M=build(h2); trans++; std::string k=canon(M); auto M2=build(h2); if(canon(M2)!=k){ std::cout<<"NONDETERMINISTIC replay\n"; return 1;} if(seen.insert(k).second) fr.push_back(h2); } }
 std::cout<<"depth "<<maxDepth<<" states "<<seen.size()<<" transitions "<<trans<<"\n"; }
