// probe C14: exhaustive tiny 1-D transportation vs brute force
#include "place_global/transportation_1d.hpp"
#include <iostream>
#include <functional>
#include <climits>
#include <map>
#include <string>
int main(int argc,char**argv){ bool zeros=argc>1; long long inst=0,thr=0,badcost=0,badvalid=0,badassign=0,badunsplit=0; std::string first; std::map<std::string,int> thrk;
 for(int ns=1;ns<=3;ns++) for(int nk=1;nk<=3;nk++){ std::vector<long long> u(ns),v(nk),s(ns),d(nk);
  std::function<void(int)> rec=[&](int k){ if(k==2*ns+2*nk){ long long ts=0,td=0; for(auto x:s)ts+=x; for(auto x:d)td+=x; if(ts>td) return; if(!zeros){ for(auto x:s) if(x==0) return; } inst++;
     Transportation1d pb(u,v,s,d); Transportation1d::Solution sol; try{ sol=pb.solve(); }catch(std::exception&e){ thr++; thrk[e.what()]++; if(first.empty()){ first=std::string("throw ")+e.what()+" u:"; for(auto x:u) first+=std::to_string(x)+" "; first+="v:"; for(auto x:v) first+=std::to_string(x)+" "; first+="s:"; for(auto x:s) first+=std::to_string(x)+" "; first+="d:"; for(auto x:d) first+=std::to_string(x)+" "; } return; }
     std::vector<long long> us(ns,0),ud(nk,0); long long cost=0; bool ok=true; std::vector<std::vector<long long>> al(ns,std::vector<long long>(nk,0)); for(auto [i,j,a]:sol){ if(a<=0||i<0||i>=ns||j<0||j>=nk){ok=false;continue;} us[i]+=a; ud[j]+=a; al[i][j]+=a; cost+=a*std::abs(u[i]-v[j]); } for(int i=0;i<ns;i++) if(us[i]!=s[i]) ok=false; for(int j=0;j<nk;j++) if(ud[j]>d[j]) ok=false; if(!ok){ badvalid++; return; }
     // brute force
     long long best=LLONG_MAX; std::vector<long long> rem=d; std::function<void(int,int,long long,long long)> bf=[&](int i,int j,long long left,long long c){ if(c>=best) return; if(i==ns){ best=c; return;} if(j==nk-1){ if(left<=rem[j]){ rem[j]-=left; bf(i+1,0,i+1<ns?s[i+1]:0,c+left*std::abs(u[i]-v[j])); rem[j]+=left;} return;} for(long long x=0;x<=std::min(left,rem[j]);x++){ rem[j]-=x; bf(i,j+1,left-x,c+x*std::abs(u[i]-v[j])); rem[j]+=x; } }; bf(0,0,s[0],0);
     if(cost!=best){ badcost++; if(first.empty()) first="cost"; }
     if(!zeros){ std::vector<int> as=pb.assign(); if((int)as.size()!=ns){ badassign++; return;} for(int i=0;i<ns;i++){ int j=as[i]; if(j<0||j>=nk||d[j]<=0){ badassign++; break;} // unsplit rule w.r.t. the plan returned by solve()
         int cnt=0,only=-1; for(int jj=0;jj<nk;jj++) if(al[i][jj]>0){cnt++;only=jj;} if(cnt==1 && v[only]!=v[j]){ badunsplit++; if(first.empty()){ first="unsplit u:"; for(auto x:u) first+=std::to_string(x)+" "; first+="v:"; for(auto x:v) first+=std::to_string(x)+" "; first+="s:"; for(auto x:s) first+=std::to_string(x)+" "; first+="d:"; for(auto x:d) first+=std::to_string(x)+" "; first+=" src "+std::to_string(i)+" plan sink "+std::to_string(only)+" assigned "+std::to_string(j);} break;} } }
     return; }
   int idx=k; if(idx<ns){ for(int x=0;x<=3;x++){u[idx]=x;rec(k+1);} return;} idx-=ns; if(idx<nk){ for(int x=0;x<=3;x++){v[idx]=x;rec(k+1);} return;} idx-=nk; if(idx<ns){ for(int x=0;x<=2;x++){s[idx]=x;rec(k+1);} return;} idx-=ns; for(int x=0;x<=2;x++){d[idx]=x;rec(k+1);} };
  rec(0); }
 std::cout<<"inst "<<inst<<" throws "<<thr<<" badvalid "<<badvalid<<" badcost "<<badcost<<" badassign "<<badassign<<" badunsplit "<<badunsplit<<"\n"<<first<<"\n"; for(auto&k:thrk) std::cout<<k.second<<" "<<k.first<<"\n"; }
