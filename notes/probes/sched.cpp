// throwaway prototype: preemption-bounded scheduler over the hooked points of runLB
#include "coloquinte.hpp"
#include <condition_variable>
#include <mutex>
#include <cstring>
#include <iostream>
#include <vector>
#include <functional>
#include <set>
#include <algorithm>
#include <unistd.h>
#include <fcntl.h>
using namespace coloquinte;
struct DPoint { std::vector<int> enabled; int running; int chosen; };
static std::mutex mu; static std::condition_variable cv;
static const void* objs[2]; static bool live[2], parked[2], granted[2]; static int atPoint[2]; static int running=-1;
static std::vector<int> prefix; static std::vector<DPoint> trace; static bool schedOn=false; static std::string err; static std::vector<int> resultBits;
static void decide(){ // mu held; all live workers parked
  std::vector<int> en; for(int i=0;i<2;i++) if(live[i]&&parked[i]) en.push_back(i); if(en.empty()) return;
  // canonical order: running first if enabled
  if(running>=0 && live[running] && parked[running] && en[0]!=running) std::swap(en[0],en[1]);
  size_t k=trace.size(); int pick=0; if(k<prefix.size()){ pick=prefix[k]; if(pick>=(int)en.size()){ err="prefix out of range"; pick=0; } }
  DPoint p; p.enabled=en; p.running=(running>=0&&live[running]&&parked[running])?running:-1; p.chosen=pick; trace.push_back(p);
  int id=en[pick]; running=id; parked[id]=false; granted[id]=true; if(atPoint[id]==2){ live[id]=false; bool all=true; for(int i=0;i<2;i++) if(live[i]&&!parked[i]) all=false; if(all) decide(); }
  cv.notify_all(); }
extern "C" void coloquinte_verif_point(const char*where,const void*obj){ if(!schedOn) return; std::unique_lock<std::mutex> lk(mu);
  if(!strcmp(where,"runLB:x")){ objs[0]=obj; live[0]=true; parked[0]=false; granted[0]=false; return; }
  if(!strcmp(where,"runLB:y")){ objs[1]=obj; live[1]=true; parked[1]=false; granted[1]=false; return; }
  if(!strcmp(where,"solve:result")){ const std::vector<float>*v=(const std::vector<float>*)obj; for(float f:*v){ int b; memcpy(&b,&f,4); resultBits.push_back(b);} return; }
  if(!strcmp(where,"runLB:joined")){ if(live[0]||live[1]) err="joined with live worker"; running=-1; return; }
  int id = obj==objs[0]?0:(obj==objs[1]?1:-1); if(id<0){ err="unknown obj"; return; }
  atPoint[id]= !strcmp(where,"solve:begin")?0: !strcmp(where,"solve:built")?1:2; parked[id]=true; granted[id]=false;
  bool all=true; for(int i=0;i<2;i++) if(live[i]&&!parked[i]) all=false; if(all) decide();
  cv.wait(lk,[&]{return granted[id];}); }
struct Obs{ std::vector<int> v; bool operator<(const Obs&o)const{return v<o.v;} bool operator==(const Obs&o)const{return v==o.v;} };
static Circuit mk(){ int n=7; Circuit c(n); c.setCellWidth({2,3,2,4,2,0,0}); c.setCellHeight({4,4,8,4,4,0,0}); c.setCellX({0,30,7,-5,12,5,230}); c.setCellY({0,9,3,20,1,150,10}); c.setCellIsFixed({false,false,false,true,false,true,true}); c.setupRows(Rectangle(0,240,0,160),4); c.addNet({0,1,2,5},{0,1,2,0},{0,1,3,0}); c.addNet({1,3,6},{0,0,0},{2,2,0},2.0f); c.addNet({2,4,0,3},{1,1,1,1},{0,0,0,0}); c.addNet({4,6},{0,0},{0,0}); c.addNet({0,5},{0,0},{0,0}); return c; }
static Obs run(const std::vector<int>&pre,int steps){ prefix=pre; trace.clear(); resultBits.clear(); running=-1; live[0]=live[1]=false; ColoquinteParameters p(3,7); p.global.maxNbSteps=steps; p.global.gapTolerance=0.0; p.global.distanceTolerance=0.0; Circuit c=mk(); Obs o; schedOn=true; c.placeGlobal(p,[&](PlacementStep s){ o.v.push_back((int)s); for(int x:c.cellX()) o.v.push_back(x); for(int y:c.cellY()) o.v.push_back(y); }); schedOn=false; for(int x:c.cellX()) o.v.push_back(x); for(int y:c.cellY()) o.v.push_back(y); /* order-insensitive: per-step results are appended in completion order, so sort per worker is needed; here x and y vectors differ in content so we append a sorted multiset */ std::vector<int> rb=resultBits; std::sort(rb.begin(),rb.end()); o.v.insert(o.v.end(),rb.begin(),rb.end()); return o; }
int dbgmain();
int main(int argc,char**argv){ if(argc==2) return dbgmain(); int steps=atoi(argv[1]); int bound=atoi(argv[2]); int devnull=open("/dev/null",O_WRONLY); int saved=dup(1); dup2(devnull,1);
  long long execs=0; std::set<Obs> outcomes; Obs ref; bool haveRef=false; size_t npoints=0;
  std::function<void(std::vector<int>)> explore=[&](std::vector<int> pre){ Obs o=run(pre,steps); execs++; std::vector<DPoint> tr=trace; npoints=std::max(npoints,tr.size()); if(!haveRef){ ref=o; haveRef=true; Obs o2=run(pre,steps); if(!(o2==o)) err="replay differs"; trace=tr; } outcomes.insert(o);
    for(size_t i=pre.size(); i<tr.size(); i++){ int cost=0; for(size_t j=0;j<i;j++) if(tr[j].chosen!=0 && tr[j].running>=0) cost++; const DPoint&p=tr[i]; for(int alt=1; alt<(int)p.enabled.size(); alt++){ int c2=cost+(p.running>=0?1:0); if(c2>bound) continue; std::vector<int> np; for(size_t j=0;j<i;j++) np.push_back(tr[j].chosen); np.push_back(alt); explore(np); } } };
  explore({}); dup2(saved,1); std::cout<<"steps "<<steps<<" bound "<<bound<<" decision points "<<npoints<<" executions "<<execs<<" distinct outcomes "<<outcomes.size()<<" err '"<<err<<"'\n"; }
// debug entry
int dbgmain(){ int devnull=open("/dev/null",O_WRONLY); int saved=dup(1); dup2(devnull,1); Obs a=run({},3); auto ta=trace; auto ra=resultBits; Obs b=run({0,1},3); auto tb=trace; auto rb=resultBits; dup2(saved,1); for(int i=0;i<10;i++){ float f,g2; memcpy(&f,&ra[i],4); memcpy(&g2,&rb[i],4); std::cout<<f<<"/"<<g2<<" "; } std::cout<<"\n"; dup2(saved,1);
 for(int v:a.v) std::cout<<v<<" "; std::cout<<"\n"; std::cout<<"same="<<(a==b)<<" sizes "<<a.v.size()<<" "<<b.v.size()<<"\n"; for(auto&t:tb){ std::cout<<"["; for(int e:t.enabled) std::cout<<e; std::cout<<" run"<<t.running<<" ch"<<t.chosen<<"] "; } std::cout<<"\n"; for(size_t i=0;i<a.v.size()&&i<b.v.size();i++) if(a.v[i]!=b.v[i]){ std::cout<<"first diff at "<<i<<": "<<a.v[i]<<" vs "<<b.v[i]<<"\n"; break;} return 0; }
