#include "place_detailed/row_legalizer.hpp"
#include <iostream>
using namespace coloquinte;
int main(){ { RowLegalizer L(0,4); std::cout<<L.push(2,2)<<" "; std::cout<<L.push(1,-3)<<" "; std::cout<<L.push(1,-3)<<" | "; for(int p:L.getPlacement()) std::cout<<p<<" "; std::cout<<"\n"; }
 { RowLegalizer L(0,3); std::cout<<L.push(2,2)<<" "; std::cout<<L.push(1,0)<<" | "; for(int p:L.getPlacement()) std::cout<<p<<" "; std::cout<<"\n"; }
 { RowLegalizer L(0,3); std::cout<<L.push(1,2)<<" "; std::cout<<L.push(1,0)<<" "<<L.push(1,0)<<" | "; for(int p:L.getPlacement()) std::cout<<p<<" "; std::cout<<"\n"; } }
