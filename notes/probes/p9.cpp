// probe C17: scaling integer weights by 2^k -> bitwise identical? (current tree stores int weights)
#include "place_global/net_model.hpp"
#include <iostream>
#include <random>
#include <cstring>
using namespace coloquinte;
int main(){ std::mt19937 g(3); auto R=[&](int a,int b){return (int)(a+g()%(b-a+1));}; int bad=0,badtol=0,tot=0; double worst=0;
 for(int it=0;it<3000;it++){ int n=R(1,6); int nn=R(1,6); std::vector<std::vector<int>> cs(nn); std::vector<std::vector<float>> os(nn); std::vector<float> mn(nn),mx(nn); std::vector<int> wt(nn); for(int k=0;k<nn;k++){ int d=R(1,4); for(int j=0;j<d;j++){ cs[k].push_back(R(0,n-1)); os[k].push_back(R(-3,3)*0.5f);} if(R(0,1)){ mn[k]=R(-20,20); mx[k]=mn[k]+R(0,10);} else { mn[k]=INFINITY; mx[k]=-INFINITY;} wt[k]=R(1,3);} 
  std::vector<float> pl(n),tg(n),pen(n); for(int i=0;i<n;i++){ pl[i]=R(-30,30); tg[i]=R(-30,30); pen[i]=R(1,8)*0.125f; }
  NetModel::Parameters P; P.netModel=(NetModelOption)R(0,3); P.approximationDistance=R(1,5); P.penaltyCutoffDistance=R(1,50); P.tolerance=1e-6; P.maxNbIterations=1000;
  for(float s: {2.0f,0.5f,8.0f,7.0f}){ if(s==0.5f){ bool ok=true; for(int k=0;k<nn;k++) if(wt[k]%2) ok=false; if(!ok) continue; }
   NetModel A(n),B(n); for(int k=0;k<nn;k++){ A.addNet(cs[k],os[k],mn[k],mx[k],wt[k]); B.addNet(cs[k],os[k],mn[k],mx[k],wt[k]*s);} std::vector<float> pen2=pen; for(auto&v:pen2) v*=s;
   auto ra=A.solveWithPenalty(pl,tg,pen,P); auto rb=B.solveWithPenalty(pl,tg,pen2,P); tot++; bool same=!memcmp(ra.data(),rb.data(),n*sizeof(float)); double md=0; for(int i=0;i<n;i++) md=std::max(md,(double)std::abs(ra[i]-rb[i])); if(s!=7.0f){ if(!same){ bad++; worst=std::max(worst,md);} } else { if(md>1e-2) badtol++; worst=std::max(worst,md);} auto sa=A.solveStar(P), sb=B.solveStar(P); if(s!=7.0f && memcmp(sa.data(),sb.data(),n*sizeof(float))) bad++; }
 }
 std::cout<<"tot "<<tot<<" bitwise-bad "<<bad<<" tol-bad "<<badtol<<" worst diff "<<worst<<"\n"; }
