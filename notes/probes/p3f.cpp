// random probe for C01/C02/C04/C05 defect classes (throwaway)
#include "coloquinte.hpp"
#include <iostream>
#include <random>
#include <map>
#include <sstream>
#include <unistd.h>
#include <fcntl.h>
#include <sys/wait.h>
#include <signal.h>
using namespace coloquinte;
struct Inst { int n; std::vector<int> w,h,x,y; std::vector<bool> fx,ob; std::vector<CellOrientation> o; std::vector<CellRowPolarity> pol; std::vector<Row> rows;
  std::vector<std::vector<int>> nc,nx,ny; };
Circuit build(const Inst&I){ Circuit c(I.n); c.setCellWidth(I.w); c.setCellHeight(I.h); c.setCellX(I.x); c.setCellY(I.y); c.setCellIsFixed(I.fx); c.setCellIsObstruction(I.ob); c.setCellOrientation(I.o); c.setCellRowPolarity(I.pol); c.setRows(I.rows);
  for(size_t k=0;k<I.nc.size();k++) c.addNet(I.nc[k],I.nx[k],I.ny[k]); return c; }
std::string dump(const Inst&I){ std::ostringstream s; s<<"rows:"; for(auto&r:I.rows) s<<" ["<<r.minX<<","<<r.maxX<<")x["<<r.minY<<","<<r.maxY<<")"<<toString(r.orientation); s<<"\n"; for(int i=0;i<I.n;i++) s<<" c"<<i<<" w"<<I.w[i]<<" h"<<I.h[i]<<" @"<<I.x[i]<<","<<I.y[i]<<" "<<toString(I.o[i])<<" pol"<<toString(I.pol[i])<<(I.fx[i]?" FIXED":"")<<(I.ob[i]?" OBS":"")<<"\n"; for(size_t k=0;k<I.nc.size();k++){ s<<" net"; for(size_t j=0;j<I.nc[k].size();j++) s<<" ("<<I.nc[k][j]<<":"<<I.nx[k][j]<<","<<I.ny[k][j]<<")"; s<<"\n";} return s.str(); }
// independent legality oracle; returns "" if legal
std::string legal(const Circuit&c){ int rh=c.rows()[0].height(); std::vector<Rectangle> obs; for(int i=0;i<c.nbCells();i++) if(c.isFixed(i)&&c.isObstruction(i)&&c.placement(i).width()>0&&c.placement(i).height()>0) obs.push_back(c.placement(i));
  std::vector<int> mov; for(int i=0;i<c.nbCells();i++) if(!c.isFixed(i)) mov.push_back(i);
  for(int i:mov){ Rectangle p=c.placement(i); if(p.height()<=0||p.height()%rh) return "height"; 
    for(int yy=p.minY; yy<p.maxY; yy+=rh){ bool ok=false; for(auto&r:c.rows()){ if(r.minY!=yy||r.minX>p.minX||r.maxX<p.maxX) continue; ok=true; break;} if(!ok){ std::ostringstream s; s<<"cell "<<i<<" strip y="<<yy<<" not in a row"; return s.str(); }
      // obstruction: any obstacle touching the columns of the strip within the row's y-range
      Rectangle strip(p.minX,p.maxX,yy,yy+rh); for(auto&o:obs) if(o.intersects(strip)){ std::ostringstream s; s<<"cell "<<i<<" overlaps obstruction"; return s.str(); } } }
  for(size_t a=0;a<mov.size();a++) for(size_t b=a+1;b<mov.size();b++) if(c.placement(mov[a]).intersects(c.placement(mov[b]))){ std::ostringstream s; s<<"cells "<<mov[a]<<","<<mov[b]<<" overlap"; return s.str(); }
  return ""; }
std::string polcheck(const Circuit&c){ for(int i=0;i<c.nbCells();i++){ if(c.isFixed(i)) continue; auto pol=c.cellRowPolarity()[i]; if(c.orientation(i)==CellOrientation::INVALID) return "INVALID orientation"; if(pol==CellRowPolarity::ANY) continue; for(auto&r:c.rows()) if(r.minY==c.y(i)&&r.minX<=c.x(i)&&c.x(i)<r.maxX){ auto e=cellOrientationInRow(pol,r.orientation); if(e!=c.orientation(i)){ std::ostringstream s; s<<"cell "<<i<<" orient "<<toString(c.orientation(i))<<" expected "<<toString(e); return s.str(); } } } return ""; }
int main(int argc,char**argv){ int N=atoi(argv[1]); unsigned seed=atoi(argv[2]); int mode=atoi(argv[3]); std::mt19937 g(seed); auto R=[&](int a,int b){return (int)(a+g()%(b-a+1));};
  int devnull=open("/dev/null",O_WRONLY); int saved=dup(1); std::map<std::string,int> cnt; std::map<std::string,std::string> ex;
  CellOrientation rowO[4]={CellOrientation::N,CellOrientation::FS,CellOrientation::S,CellOrientation::FN};
  for(int it=0;it<N;it++){ Inst I; int rh=R(1,2); int nr=R(1,4); int W=R(3,8); int y=0; for(int r=0;r<nr;r++){ if(R(0,5)==0) y+=rh*R(1,2); CellOrientation ro= R(0,3)==0? rowO[R(0,3)] : (r%2?CellOrientation::FS:CellOrientation::N); if(R(0,4)==0){ int m=R(1,W-1); I.rows.emplace_back(0,m,y,y+rh,ro); if(R(0,1)) I.rows.emplace_back(m+R(0,1),W,y,y+rh,ro);} else I.rows.emplace_back(R(0,1),W,y,y+rh,ro); y+=rh; }
    I.n=R(1,5); for(int i=0;i<I.n;i++){ bool fixed=R(0,4)==0; int hh= fixed? R(0,3) : rh*(R(0,3)==0?R(2,3):1); int ww=fixed?R(0,4):R(1,3); I.w.push_back(ww); I.h.push_back(hh); I.x.push_back(R(-3,W+3)); I.y.push_back(R(-3,y+3)); I.fx.push_back(fixed); I.ob.push_back(R(0,3)!=0);
      CellRowPolarity pol=CellRowPolarity::ANY; if(mode>=1&&R(0,1)) { CellRowPolarity ps[4]={CellRowPolarity::SAME,CellRowPolarity::OPPOSITE,CellRowPolarity::NW,CellRowPolarity::SE}; pol=ps[R(0,3)]; } I.pol.push_back(pol);
      CellOrientation o=CellOrientation::N; if(mode>=2){ if(pol==CellRowPolarity::ANY) o=(CellOrientation)R(0,7); else { CellOrientation u[4]={CellOrientation::N,CellOrientation::S,CellOrientation::FN,CellOrientation::FS}; o=u[R(0,3)]; } } I.o.push_back(o);
      if(!fixed && isTurn(o)){ /* placed height must be multiple of rh: raw width multiple */ I.w.back()=rh*(R(0,3)==0?R(2,3):1); I.h.back()=R(1,3);} }
    int nn=R(0,3); for(int k=0;k<nn;k++){ int d=R(1,3); std::vector<int> c,xo,yo; for(int j=0;j<d;j++){ c.push_back(R(0,I.n-1)); xo.push_back(R(-1,3)); yo.push_back(R(-1,3)); } I.nc.push_back(c); I.nx.push_back(xo); I.ny.push_back(yo); }
    ColoquinteParameters p(R(1,9),0); if(mode>=3){ p.detailed.reorderingNbRows=R(1,2); p.detailed.reorderingMaxNbCells=R(1,4); p.detailed.localSearchNbRows=R(0,3); p.detailed.localSearchNbNeighbours=R(0,4); p.detailed.shiftMaxNbCells=R(0,6); }
    std::string res; int pfd[2]; pipe(pfd); pid_t pid=fork(); if(pid==0){ close(pfd[0]); alarm(20); Circuit c=build(I); dup2(devnull,1); dup2(devnull,2);
    bool legOk=false; try{ c.legalize(p); legOk=true; std::string l=legal(c); if(l!="") res="LEGALIZE-ILLEGAL: "+l; else { std::string q=polcheck(c); if(q!="") res="LEGALIZE-POL: "+q; } }catch(std::exception&e){ res=std::string("legalize throws: ")+e.what(); }
    if(legOk&&res==""){ long long h0=c.hpwl(); Circuit d=build(I); long long last=-1; std::string cbres; int k=0; try{ d.placeDetailed(p,[&](PlacementStep){ std::string l=legal(d); if(l!=""&&cbres=="") cbres="DETAILED-CB-ILLEGAL: "+l; std::string q=polcheck(d); if(q!=""&&cbres=="") cbres="DETAILED-CB-POL: "+q; long long h=d.hpwl(); if(k==0&&h!=h0&&cbres=="") cbres="first cb hpwl != legalize hpwl"; if(last>=0&&h>last&&cbres=="") cbres="DETAILED-HPWL-INCREASE"; last=h; k++; }); if(cbres!="") res=cbres; else { std::string l=legal(d); if(l!="") res="DETAILED-ILLEGAL: "+l; else if(d.hpwl()>h0) res="DETAILED-HPWL-WORSE"; else { std::string q=polcheck(d); if(q!="") res="DETAILED-POL: "+q; } } }catch(std::exception&e){ res=std::string("DETAILED-THROWS: ")+e.what(); } }
    write(pfd[1],res.data(),res.size()); _exit(0); }
    close(pfd[1]); { char buf[4096]; int n; while((n=read(pfd[0],buf,sizeof buf))>0) res.append(buf,n); close(pfd[0]); int st; waitpid(pid,&st,0); if(WIFSIGNALED(st)){ res="CRASH-signal-"+std::to_string(WTERMSIG(st))+": "; } }
    std::string key=res.substr(0,res.find(':')); if(res=="") key="ok"; cnt[key]++; if(!ex.count(key)) ex[key]=res+"\n"+dump(I); }
  for(auto&k:cnt) std::cout<<k.second<<"\t"<<k.first<<"\n"; for(auto&k:ex) if(k.first!="ok"&&k.first.find("legalize throws")==std::string::npos) std::cout<<"--- "<<k.second<<"\n"; }
