// probe C16(a): bin capacities from a circuit vs unit-grid oracle
#include "place_global/density_grid.hpp"
#include <iostream>
#include <map>
#include <sstream>
using namespace coloquinte;
int main(){ std::map<std::string,long long> cnt; std::string ex;
 for(int rh: {2,3}) for(int nr=1;nr<=3;nr++) for(int W=5;W<=13;W+=4) for(int ox: {0,-7}) for(int obsKind=0;obsKind<5;obsKind++) for(float size: {1.0f,1.5f,2.5f,5.0f}) for(float margin: {0.0f,0.4f,0.9f,1.5f}) for(int smallFixedH: {0,1}){
   Circuit c(3); c.setCellWidth({2,obsKind==0?0:(obsKind==1?2:(obsKind==2?W+4:3)),1}); c.setCellHeight({rh,obsKind==3?1:(obsKind==4?rh*nr+2:rh),smallFixedH?1:rh}); c.setCellIsFixed({false,true,true}); c.setCellIsObstruction({true,true,false}); c.setCellX({0,ox+2,ox}); c.setCellY({0,obsKind==4?-1:0,0}); c.setupRows(Rectangle(ox,ox+W,0,rh*nr),rh);
   int minH=1e9; for(int h:c.cellHeight()) if(h>0) minH=std::min(minH,h); int m=(int)(margin*minH);
   // oracle: free unit squares after obstruction & clipping
   std::vector<std::vector<char>> fr(W,std::vector<char>(rh*nr,0)); Rectangle o=c.placement(1); bool any=false;
   for(int r=0;r<nr;r++){ std::vector<char> col(W,1); if(o.width()>0&&o.height()>0&&o.minY<rh*(r+1)&&rh*r<o.maxY) for(int x=std::max(ox,o.minX);x<std::min(ox+W,o.maxX);x++) col[x-ox]=0; int x=0; while(x<W){ if(!col[x]){x++;continue;} int e=x; while(e<W&&col[e]) e++; if(e-x>2*m){ any=true; for(int xx=x+m;xx<e-m;xx++) for(int yy=rh*r;yy<rh*(r+1);yy++) fr[xx][yy]=1; } x=e; } }
   DensityGrid g=DensityGrid::fromIspdCircuit(c,size,margin); std::string res="ok"; Rectangle A=g.placementArea();
   if(!any){ res = g.totalCapacity()==0? "ok-empty":"capacity-without-rows"; }
   else { long long tot=0; for(int i=0;i<g.nbBinsX();i++) for(int j=0;j<g.nbBinsY();j++){ Rectangle b=g.region(i,j); long long cap=0; for(int x=std::max(b.minX,ox);x<std::min(b.maxX,ox+W);x++) for(int y=std::max(b.minY,0);y<std::min(b.maxY,rh*nr);y++) cap+=fr[x-ox][y]; if(cap!=g.binCapacity(i,j)) res="bin-capacity-mismatch"; tot+=cap; } long long all=0; for(auto&v:fr) for(char q:v) all+=q; if(tot!=all) res="bins-do-not-cover-free-area"; for(int i=0;i<g.nbBinsX();i++) if(g.binLimitX(i)>=g.binLimitX(i+1)) res="empty-bin-x"; for(int j=0;j<g.nbBinsY();j++) if(g.binLimitY(j)>=g.binLimitY(j+1)) res="empty-bin-y"; }
   cnt[res]++; if(res!="ok"&&res!="ok-empty"&&ex.empty()){ std::ostringstream s; s<<res<<" rh "<<rh<<" nr "<<nr<<" W "<<W<<" ox "<<ox<<" obs "<<obsKind<<" size "<<size<<" margin "<<margin<<" smallFixedH "<<smallFixedH<<" bins "<<g.nbBinsX()<<"x"<<g.nbBinsY()<<" area "<<A.toString(); ex=s.str(); } }
 for(auto&k:cnt) std::cout<<k.second<<"\t"<<k.first<<"\n"; std::cout<<ex<<"\n"; }
