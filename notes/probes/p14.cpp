// probe C09(a): independent orientation oracle vs Circuit::pinXOffset/pinYOffset/placedWidth/hpwl
#include "coloquinte.hpp"
#include <iostream>
#include <algorithm>
using namespace coloquinte;
// DEF orientation as a linear map (2x2 integer matrix) applied to points of the N-oriented cell, then re-anchored at the bbox lower-left
struct M{int a,b,c,d;};
M mat(CellOrientation o){ switch(o){ case CellOrientation::N: return {1,0,0,1}; case CellOrientation::S: return {-1,0,0,-1}; case CellOrientation::W: return {0,-1,1,0}; /* rotate 90 ccw */ case CellOrientation::E: return {0,1,-1,0}; /* rotate 270 ccw */
  case CellOrientation::FN: return {-1,0,0,1}; /* mirror about y axis */ case CellOrientation::FS: return {1,0,0,-1}; /* mirror about x axis */ case CellOrientation::FW: { /* MX then R90 */ M r{0,-1,1,0}, f{1,0,0,-1}; return {r.a*f.a+r.b*f.c, r.a*f.b+r.b*f.d, r.c*f.a+r.d*f.c, r.c*f.b+r.d*f.d}; } case CellOrientation::FE: { /* MY then R90 */ M r{0,-1,1,0}, f{-1,0,0,1}; return {r.a*f.a+r.b*f.c, r.a*f.b+r.b*f.d, r.c*f.a+r.d*f.c, r.c*f.b+r.d*f.d}; } default: return {1,0,0,1}; } }
int main(){ long long n=0,bad=0; for(int oi=0;oi<8;oi++){ CellOrientation o=(CellOrientation)oi; M m=mat(o); for(int w=1;w<=3;w++) for(int h=1;h<=3;h++) for(int px=-1;px<=4;px++) for(int py=-1;py<=4;py++){ n++;
   // corners
   int xs[4]={0,w,0,w}, ys[4]={0,0,h,h}; int mnx=1e9,mny=1e9,mxx=-1e9,mxy=-1e9; for(int k=0;k<4;k++){ int X=m.a*xs[k]+m.b*ys[k], Y=m.c*xs[k]+m.d*ys[k]; mnx=std::min(mnx,X); mny=std::min(mny,Y); mxx=std::max(mxx,X); mxy=std::max(mxy,Y);} int PX=m.a*px+m.b*py-mnx, PY=m.c*px+m.d*py-mny; int PW=mxx-mnx, PH=mxy-mny;
   Circuit c(2); c.setCellWidth({w,1}); c.setCellHeight({h,1}); c.setCellOrientation({o,CellOrientation::N}); c.setCellX({7,0}); c.setCellY({-3,0}); c.addNet({0,1},{px,0},{py,0});
   bool ok = c.placedWidth(0)==PW && c.placedHeight(0)==PH && c.pinXOffset(0,0)==PX && c.pinYOffset(0,0)==PY && c.hpwl()==std::abs(7+PX)+std::abs(-3+PY);
   if(!ok){ bad++; if(bad<5) std::cout<<"MISMATCH "<<toString(o)<<" w"<<w<<" h"<<h<<" pin "<<px<<","<<py<<" lib "<<c.pinXOffset(0,0)<<","<<c.pinYOffset(0,0)<<" oracle "<<PX<<","<<PY<<"\n"; } } }
 std::cout<<"n "<<n<<" bad "<<bad<<"\n"; }
