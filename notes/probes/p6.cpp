// probe C06/C08: random small circuits through placeGlobal
#include "coloquinte.hpp"
#include <iostream>
#include <random>
#include <map>
#include <cmath>
#include <sstream>
#include <unistd.h>
#include <fcntl.h>
#include <sys/wait.h>
using namespace coloquinte;
int main(int argc,char**argv){ int N=atoi(argv[1]); unsigned seed=atoi(argv[2]); std::mt19937 g(seed); auto R=[&](int a,int b){return (int)(a+g()%(b-a+1));}; auto U=[&](double a,double b){ return a+(b-a)*(g()%10001)/10000.0; };
 int devnull=open("/dev/null",O_WRONLY); std::map<std::string,int> cnt; std::map<std::string,std::string> ex;
 for(int it=0;it<N;it++){ int rh=R(1,8); int nr=R(1,6); int W=rh*R(4,12)+R(0,3); int ox=R(-50,50), oy=R(-50,50); int n=R(1,8);
  std::vector<int> w(n),h(n),x(n),y(n); std::vector<bool> fx(n); for(int i=0;i<n;i++){ fx[i]=R(0,4)==0; w[i]=fx[i]?R(0,2*rh):R(1,2*rh); h[i]=fx[i]?R(0,2*rh):rh*(R(0,5)==0?2:1); x[i]=ox+R(-W,2*W); y[i]=oy+R(-rh*nr,2*rh*nr);} bool anymov=false; for(int i=0;i<n;i++) if(!fx[i]) anymov=true; if(!anymov){ fx[0]=false; w[0]=rh; h[0]=rh; }
  std::ostringstream desc; desc<<"rh "<<rh<<" nr "<<nr<<" W "<<W<<" o "<<ox<<","<<oy<<" n "<<n; for(int i=0;i<n;i++) desc<<" ["<<w[i]<<"x"<<h[i]<<"@"<<x[i]<<","<<y[i]<<(fx[i]?"F":"")<<"]";
  int nn=R(0,6); std::vector<std::vector<int>> nc(nn),nx(nn),ny(nn); std::vector<float> nw(nn); for(int k=0;k<nn;k++){ int d=R(1,4); for(int j=0;j<d;j++){ int c=R(0,n-1); nc[k].push_back(c); nx[k].push_back(R(-1,w[c]+1)); ny[k].push_back(R(-1,h[c]+1)); } nw[k]=R(0,3)==0?1.0f:(float)U(0.1,4.0); }
  int effort=R(1,9); int pseed=R(0,100); ColoquinteParameters p(effort,pseed); p.global.maxNbSteps=R(1,60); p.global.continuousModel.netModel=(NetModelOption)R(0,3); p.global.roughLegalization.costModel=(LegalizationModel)R(0,5); p.global.exportBlending=U(-0.5,1.5); p.global.roughLegalization.binSize=U(1,25); p.global.roughLegalization.sideMargin=U(0,1.2); p.global.roughLegalization.targetBlending=U(-0.1,0.9); p.global.penalty.targetBlending=U(0.1,1.1); p.global.noise=R(0,1)?0.0:U(0,2);
  desc<<" effort "<<effort<<" steps "<<p.global.maxNbSteps<<" nm "<<(int)p.global.continuousModel.netModel<<" cm "<<(int)p.global.roughLegalization.costModel<<" eb "<<p.global.exportBlending<<" bin "<<p.global.roughLegalization.binSize<<" sm "<<p.global.roughLegalization.sideMargin;
  auto mk=[&](){ Circuit c(n); c.setCellWidth(w); c.setCellHeight(h); c.setCellX(x); c.setCellY(y); c.setCellIsFixed(fx); c.setupRows(Rectangle(ox,ox+W,oy,oy+rh*nr),rh); for(int k=0;k<nn;k++) c.addNet(nc[k],nx[k],ny[k],nw[k]); return c; };
  std::string res; int pfd[2]; pipe(pfd); pid_t pid=fork(); if(pid==0){ close(pfd[0]); alarm(60); dup2(devnull,1); dup2(devnull,2);
    try{ p.check(); Circuit c=mk(); Rectangle A=c.computePlacementArea(); std::vector<int> lbx,lby,ubx,uby; int ncb=0;
      c.placeGlobal(p,[&](PlacementStep s){ ncb++; if(s==PlacementStep::LowerBound){ lbx=c.cellX(); lby=c.cellY(); } else { ubx=c.cellX(); uby=c.cellY(); for(int i=0;i<n;i++){ if(fx[i]) continue; if(w[i]==0||h[i]==0) continue; double cx=c.cellX()[i]+0.5*w[i], cy=c.cellY()[i]+0.5*h[i]; if(cx<A.minX-0.51||cx>A.maxX+0.51||cy<A.minY-0.51||cy>A.maxY+0.51){ if(res.empty()){ std::ostringstream s; s<<"UB-OUTSIDE: cell "<<i<<" centre "<<cx<<","<<cy<<" area "<<A.toString(); res=s.str(); } } } } for(int i=0;i<n;i++) if(std::abs((long long)c.cellX()[i])>(1<<24)||std::abs((long long)c.cellY()[i])>(1<<24)) if(res.empty()) res="HUGE: coordinate"; });
      // blend
      double b=p.global.exportBlending; if(res.empty()) for(int i=0;i<n;i++){ if(fx[i]) { if(c.cellX()[i]!=x[i]||c.cellY()[i]!=y[i]) res="FIXED-MOVED: "; continue;} double ex_=(1-b)*lbx[i]+b*ubx[i], ey=(1-b)*lby[i]+b*uby[i]; double tol=0.5+0.5*(std::abs(1-b)+std::abs(b))+0.01; if(std::abs(c.cellX()[i]-ex_)>tol||std::abs(c.cellY()[i]-ey)>tol){ std::ostringstream s; s<<"BLEND: cell "<<i<<" got "<<c.cellX()[i]<<","<<c.cellY()[i]<<" expected "<<ex_<<","<<ey<<" b "<<b; res=s.str(); break; } }
      // determinism: again without callback, and again with
      if(res.empty()){ Circuit d=mk(); d.placeGlobal(p); if(d.cellX()!=c.cellX()||d.cellY()!=c.cellY()) res="NONDET-nocallback: "; Circuit e=mk(); e.placeGlobal(p,[&](PlacementStep){}); if(e.cellX()!=c.cellX()||e.cellY()!=c.cellY()) res="NONDET-repeat: "; }
    }catch(std::exception&e){ res=std::string("THROWS: ")+e.what(); }
    write(pfd[1],res.data(),res.size()); _exit(0); }
  close(pfd[1]); { char buf[4096]; int k; while((k=read(pfd[0],buf,sizeof buf))>0) res.append(buf,k); close(pfd[0]); int st; waitpid(pid,&st,0); if(WIFSIGNALED(st)) res="CRASH-signal-"+std::to_string(WTERMSIG(st))+": "; }
  std::string key=res.empty()?"ok":res.substr(0,res.find(':')); if(key=="THROWS") key=res; cnt[key]++; if(!ex.count(key)) ex[key]=res+"\n   "+desc.str(); }
 for(auto&k:cnt) std::cout<<k.second<<"\t"<<k.first<<"\n"; for(auto&k:ex) if(k.first!="ok") std::cout<<"--- "<<k.second<<"\n"; }
