// probe C15: Row::freespace vs column oracle, exhaustive single + pairs of obstacles on tiny grid
#include "coloquinte.hpp"
#include <iostream>
#include <set>
#include <string>
using namespace coloquinte;
int main(){ Row row(0,4,0,2,CellOrientation::FS); std::vector<Rectangle> all; for(int a=-1;a<=5;a++)for(int b=-1;b<=5;b++)for(int c=-1;c<=3;c++)for(int d=-1;d<=3;d++) all.emplace_back(a,b,c,d);
 long long n=0,bad=0; std::string first; auto eval=[&](const std::vector<Rectangle>&obs){ n++; std::vector<Row> fs=row.freespace(obs); // oracle: column x free iff no obstacle (non-degenerate, proper) intersects (x,x+1)x(0,2)
   std::set<int> freecols; for(int x=0;x<4;x++){ bool f=true; for(auto&o:obs){ if(o.minX<o.maxX&&o.minY<o.maxY&&o.minX<x+1&&x<o.maxX&&o.minY<2&&0<o.maxY) f=false; } if(f) freecols.insert(x);} std::set<int> got; bool ok=true; for(auto&r:fs){ if(r.minY!=0||r.maxY!=2||r.orientation!=CellOrientation::FS||r.minX<0||r.maxX>4||r.minX>=r.maxX) ok=false; for(int x=r.minX;x<r.maxX;x++){ if(got.count(x)) ok=false; got.insert(x);} } if(got!=freecols) ok=false; if(!ok){ bad++; if(first.empty()){ for(auto&o:obs) first+=o.toString()+"; "; first+=" -> "; for(auto&r:fs) first+=r.toString()+"; "; } } };
 for(auto&o:all) eval({o}); std::cout<<"single: n "<<n<<" bad "<<bad<<" "<<first<<"\n"; first.clear(); long long b0=bad; 
 std::vector<Rectangle> proper; for(auto&o:all) if(o.minX<=o.maxX&&o.minY<=o.maxY) proper.push_back(o); for(size_t i=0;i<proper.size();i+=3) for(size_t j=i;j<proper.size();j+=5) eval({proper[i],proper[j]}); std::cout<<"pairs(non-inverted): n "<<n<<" bad "<<bad-b0<<" "<<first<<"\n"; }
