// C13 — TransportationProblem returns a feasible minimum-cost plan.
// Exhaustive enumeration of tiny problems against brute-force enumeration of
// all integer allocations, evaluated with the problem's own fixed-point costs.
#include "place_global/transportation.hpp"
#include <optional>
#include "verif.hpp"

struct CallResult { bool threw = false; std::string what; };
template <class F> CallResult guardedCall(F &&f) { CallResult r; try { f(); } catch (const std::exception &e) { r.threw = true; r.what = e.what(); } catch (...) { r.threw = true; r.what = "non-std"; } return r; }

using namespace coloquinte;

struct Inst {
  int kind;  // 0 integer costs, 1..3 and 6..7 float costs with scale index, 4 over-full + increaseCapacity (int costs)
  std::vector<long long> cap, dem;
  std::vector<int> cost;  // sinks x sources, row-major
};

static const float SCALES[5] = {1.0f, 0.37f, 1.0e4f, 1.5e38f, 1.0e-4f};  // kinds 1..3 and 6, 7 (up to the top of the float range; costs below 1e-8 are zero for the solver by design)
static const long long BIGQ = 1500000000LL;  // kind 5: demands and capacities multiplied by this (areas are 64-bit)

static std::string enc(const Inst &in) {
  return std::to_string(in.kind) + "|" + vf::joinInts(in.cap) + "|" + vf::joinInts(in.dem) + "|" + vf::joinInts(in.cost);
}
static Inst dec(const std::string &s) {
  auto p = vf::splitStr(s, '|');
  Inst in;
  in.kind = atoi(p[0].c_str());
  for (auto v : vf::splitInts(p[1])) in.cap.push_back(v);
  for (auto v : vf::splitInts(p[2])) in.dem.push_back(v);
  for (auto v : vf::splitInts(p[3])) in.cost.push_back((int)v);
  return in;
}

// brute force: minimum of sum alloc*cost over all integer allocations
static long long bruteMin(const std::vector<long long> &cap, const std::vector<long long> &dem,
                          const std::vector<std::vector<CostType>> &cost) {
  int K = cap.size(), M = dem.size();
  std::vector<long long> rem = cap;
  long long best = (1LL << 62);
  std::function<void(int, long long)> recSrc;
  std::function<void(int, int, long long, long long)> recSink;
  recSink = [&](int src, int snk, long long left, long long acc) {
    if (acc >= best) return;
    if (snk == K - 1) {
      if (left > rem[snk]) return;
      rem[snk] -= left;
      recSrc(src + 1, acc + left * (long long)cost[snk][src]);
      rem[snk] += left;
      return;
    }
    for (long long a = 0; a <= left && a <= rem[snk]; ++a) {
      rem[snk] -= a;
      recSink(src, snk + 1, left - a, acc + a * (long long)cost[snk][src]);
      rem[snk] += a;
    }
  };
  recSrc = [&](int src, long long acc) {
    if (src == M) { best = std::min(best, acc); return; }
    recSink(src, 0, dem[src], acc);
  };
  recSrc(0, 0);
  return best;
}

// reference for sizes beyond brute force: successive shortest paths with Bellman-Ford on the bipartite network
// (an independent, deliberately plain implementation; costs are the problem's fixed-point costs, exact in 128 bits)
static __int128 flowMin(const std::vector<long long> &cap, const std::vector<long long> &dem, const std::vector<std::vector<CostType>> &cost) {
  int K = cap.size(), M = dem.size(), N = K + M + 2, S = K + M, T = K + M + 1;
  struct E { int to; long long cap; __int128 cost; int rev; };
  std::vector<std::vector<E>> g(N);
  auto add = [&](int a, int b, long long c, __int128 w) {
    g[a].push_back({b, c, w, (int)g[b].size()});
    g[b].push_back({a, 0, -w, (int)g[a].size() - 1});
  };
  long long total = 0;
  for (int j = 0; j < M; ++j) { add(S, j, dem[j], 0); total += dem[j]; }
  for (int i = 0; i < K; ++i) add(M + i, T, cap[i], 0);
  for (int j = 0; j < M; ++j)
    for (int i = 0; i < K; ++i) add(j, M + i, (long long)4e18, (__int128)cost[i][j]);
  __int128 res = 0;
  long long sent = 0;
  const __int128 INF = (__int128)1 << 120;
  while (sent < total) {
    std::vector<__int128> dist(N, INF);
    std::vector<int> pv(N, -1), pe(N, -1);
    dist[S] = 0;
    for (int it = 0; it < N; ++it) {
      bool ch = false;
      for (int a = 0; a < N; ++a) {
        if (dist[a] == INF) continue;
        for (size_t e = 0; e < g[a].size(); ++e)
          if (g[a][e].cap > 0 && dist[a] + g[a][e].cost < dist[g[a][e].to]) { dist[g[a][e].to] = dist[a] + g[a][e].cost; pv[g[a][e].to] = a; pe[g[a][e].to] = e; ch = true; }
      }
      if (!ch) break;
    }
    if (dist[T] == INF) return -1;
    long long push = total - sent;
    for (int x = T; x != S; x = pv[x]) push = std::min(push, g[pv[x]][pe[x]].cap);
    for (int x = T; x != S; x = pv[x]) { g[pv[x]][pe[x]].cap -= push; g[x][g[pv[x]][pe[x]].rev].cap += push; }
    res += dist[T] * push;
    sent += push;
  }
  return res;
}

static vf::Verdicts eval(const Inst &in, vf::Ctx &ctx) {
  vf::Verdicts out;
  int K = in.cap.size(), M = in.dem.size();
  auto fail = [&](const std::string &cls, const std::string &msg) { out.push_back({cls, msg + " | " + enc(in)}); };
  std::optional<TransportationProblem> pb;
  bool isFloat = (in.kind >= 1 && in.kind <= 3) || in.kind == 6 || in.kind == 7;
  Inst inBig = in;
  if (in.kind == 5) {
    for (auto &x : inBig.cap) x *= BIGQ;
    for (auto &x : inBig.dem) x *= BIGQ;
  }
  const Inst &inq = in.kind == 5 ? inBig : in;
  try {
    if (isFloat) {
      std::vector<std::vector<float>> fc(K, std::vector<float>(M));
      for (int i = 0; i < K; ++i)
        for (int j = 0; j < M; ++j) fc[i][j] = in.cost[i * M + j] * SCALES[in.kind <= 3 ? in.kind - 1 : in.kind - 3];
      pb.emplace(inq.cap, inq.dem, fc);
    } else {
      std::vector<std::vector<CostType>> ic(K, std::vector<CostType>(M));
      for (int i = 0; i < K; ++i)
        for (int j = 0; j < M; ++j) ic[i][j] = in.cost[i * M + j];
      pb.emplace(inq.cap, inq.dem, ic);
    }
    if (in.kind == 4) {
      pb->increaseCapacity();
      if (pb->totalCapacity() < pb->totalDemand()) fail("increaseCapacity-insufficient", "capacity still below demand");
      long long added = 0;
      for (int i = 0; i < K; ++i) {
        if (pb->capacity(i) < in.cap[i]) fail("increaseCapacity-decreased-a-sink", "");
        added += pb->capacity(i) - in.cap[i];
      }
      long long dsum = 0, csum = 0;
      for (auto d : in.dem) dsum += d;
      for (auto c : in.cap) csum += c;
      if (added != std::max(0LL, dsum - csum)) fail("increaseCapacity-wrong-amount", "added " + std::to_string(added));
    }
    pb->solve();
  } catch (const std::exception &e) {
    fail("solver-throws", e.what());
    return out;
  }
  // feasibility by direct sums
  const auto &al = pb->allocations();
  bool feasible = (int)al.size() == K;
  std::vector<long long> used(K, 0);
  long long cost = 0;
  for (int i = 0; i < K && feasible; ++i) {
    if ((int)al[i].size() != M) { feasible = false; break; }
    for (int j = 0; j < M; ++j) {
      if (al[i][j] < 0) { fail("negative-allocation", ""); feasible = false; }
      used[i] += al[i][j];
      cost += al[i][j] * (long long)pb->costs()[i][j];
    }
  }
  if (!feasible) { if (out.empty()) fail("malformed-allocation", ""); return out; }
  for (int j = 0; j < M; ++j) {
    long long s = 0;
    for (int i = 0; i < K; ++i) s += al[i][j];
    if (s != inq.dem[j]) { fail("source-not-fully-allocated", "source " + std::to_string(j) + " got " + std::to_string(s)); return out; }
  }
  for (int i = 0; i < K; ++i)
    if (used[i] > pb->capacity(i)) { fail("sink-over-capacity", "sink " + std::to_string(i)); return out; }
  long long opt;
  if (in.kind == 8) {
    // larger problems: min-cost-flow reference; the plan's cost is re-summed in 128 bits
    __int128 c128 = 0;
    for (int i = 0; i < K; ++i) for (int j = 0; j < M; ++j) c128 += (__int128)al[i][j] * pb->costs()[i][j];
    __int128 o128 = flowMin(pb->capacities(), in.dem, pb->costs());
    if (c128 != o128) fail("plan-not-optimal", "larger problem " + std::to_string(K) + "x" + std::to_string(M) + ": cost differs from the min-cost-flow optimum by " + std::to_string((double)(c128 - o128)));
    opt = cost;
  } else if (in.kind == 5) opt = bruteMin(in.cap, in.dem, pb->costs()) * BIGQ;  // the optimum is linear in a common quantity factor
  else opt = bruteMin(pb->capacities(), in.dem, pb->costs());
  if (cost != opt) fail("plan-not-optimal", "cost " + std::to_string(cost) + " > optimum " + std::to_string(opt));
  if (isFloat) {
    // the float costs are the instance's small integers times a positive constant: the plan must also be optimal for those
    // integers (this does not go through the solver's own fixed-point conversion)
    std::vector<std::vector<CostType>> ic(K, std::vector<CostType>(M));
    long long costInt = 0;
    for (int i = 0; i < K; ++i)
      for (int j = 0; j < M; ++j) { ic[i][j] = in.cost[i * M + j]; costInt += al[i][j] * (long long)in.cost[i * M + j]; }
    long long optInt = bruteMin(pb->capacities(), in.dem, ic);
    if (costInt != optInt)
      fail("plan-not-optimal-for-the-given-float-costs", "cost " + std::to_string(costInt) + " > optimum " + std::to_string(optInt) + " in units of the common factor");
  }
  // derived assignment: an arg-max of the allocations of each source
  std::vector<int> as = pb->toAssignment();
  if ((int)as.size() != M) fail("assignment-size", "");
  else
    for (int j = 0; j < M; ++j) {
      long long mx = 0;
      for (int i = 0; i < K; ++i) mx = std::max(mx, al[i][j]);
      if (as[j] < 0 || as[j] >= K || al[as[j]][j] != mx) { fail("assignment-not-argmax", "source " + std::to_string(j)); break; }
    }
  // history on the same object: malformed warm starts are refused (exception), then the problem is solved again
  {
    std::vector<std::vector<DemandType>> before = pb->allocations();
    std::vector<std::vector<DemandType>> shortRows(K, std::vector<DemandType>(M > 1 ? M - 1 : 0, 0));
    CallResult r1 = guardedCall([&] { pb->setAllocations(shortRows); });
    if (!r1.threw && M > 0) fail("malformed-allocations-accepted", "");
    for (int round = 0; round < 2; ++round) {
    if (round == 1) {
      CallResult r2 = guardedCall([&] { pb->setAssignment(std::vector<int>(M, K)); });
      if (!r2.threw) fail("malformed-assignment-accepted", "");
    }
    CallResult r3 = guardedCall([&] { pb->solve(); });
    if (r3.threw) fail("solve-throws-after-a-refused-warm-start", r3.what);
    else {
      const auto &al2 = pb->allocations();
      bool ok = (int)al2.size() == K;
      long long cost2 = 0;
      for (int i = 0; i < K && ok; ++i) {
        if ((int)al2[i].size() != M) { ok = false; break; }
        for (int j = 0; j < M; ++j) cost2 += al2[i][j] * (long long)pb->costs()[i][j];
      }
      for (int j = 0; j < M && ok; ++j) {
        long long sj = 0;
        for (int i = 0; i < K; ++i) sj += al2[i][j];
        if (sj != inq.dem[j]) ok = false;
      }
      if (!ok) fail("plan-malformed-after-a-refused-warm-start", "");
      else if (cost2 != opt) fail("plan-not-optimal-after-a-refused-warm-start", "cost " + std::to_string(cost2) + " optimum " + std::to_string(opt));
    }
    }
    (void)before;
  }
  // non-trivial: the optimum is not reached by sending every source to its cheapest sink independently
  long long greedy = 0;
  for (int j = 0; j < M; ++j) {
    long long b = 1LL << 60;
    for (int i = 0; i < K; ++i) b = std::min<long long>(b, pb->costs()[i][j]);
    greedy += b * inq.dem[j];
  }
  if (opt > greedy) { ctx.count("capacity_binding_cases"); ctx.nontrivial(vf::fnv(enc(in))); }
  return out;
}

int main(int argc, char **argv) {
  vf::Opts o = vf::parseOpts(argc, argv);
  bool th = o.thorough() && o.pass != "san";  // the secondary sanitizer pass of the thorough tier uses the quick alphabet
  vf::Check<Inst> c;
  c.property = "C13";
  c.level = "exploration";
  int maxN = 3, maxDem = 2, maxCap = 3, maxCost = 2;
  c.rule =
      "all problems with 1..3 sinks, 1..3 sources (thorough: also 4x2, 2x4, 4x3 with costs {0,1,3}), demands 1..2, capacities 1..3, integer costs "
      "0..2 (one large-spread value in thorough), total demand <= total capacity; 3 sinks x 4 sources with binary costs, demands/capacities 1..3; 4x4 assignment problems with costs {0,1,2} (quick: last sink free);  the float constructor on the same costs scaled by {1, 0.37, 1e4} and, on the smallest shapes, by {1.5e38, 1e-4} (the top of the float range and small costs above the 1e-8 floor below which the solver treats costs as zero) (optimality also judged in the instance's own integer costs, independently of the solver's fixed-point conversion) "
      "(sizes up to 3x2/2x3 in quick); over-full variants after increaseCapacity(); larger problems (5..16 sinks x 8..33 sources, 4 cost patterns x 3 quantity patterns; and widely spread costs mix(i,j,a,b) mod 1001 (a fixed integer mixing function) for every (a,b) in a 40 x 40 grid on 5/12/16 sinks x 10/33/60/80 sources) against an independent min-cost-flow reference; oracle = direct feasibility sums, brute-force minimum over all "
      "integer allocations in the problem's own fixed-point costs, arg-max rule for toAssignment(); non-trivial = a capacity constraint is binding";
  c.bounds = th ? "<=4x3" : "<=3x3";
  c.enumerate = [=](const std::function<void(const Inst &)> &f) {
    auto gen = [&](int K, int M, int kind, std::vector<int> costVals, int capMax, int demMax) {
      std::vector<int> radix;
      for (int i = 0; i < K; ++i) radix.push_back(capMax);
      for (int j = 0; j < M; ++j) radix.push_back(demMax);
      for (int i = 0; i < K * M; ++i) radix.push_back(costVals.size());
      for (vf::Odometer od(radix); !od.done; od.next()) {
        Inst in;
        in.kind = kind;
        long long cs = 0, ds = 0;
        for (int i = 0; i < K; ++i) { in.cap.push_back(od.v[i] + 1); cs += od.v[i] + 1; }
        for (int j = 0; j < M; ++j) { in.dem.push_back(od.v[K + j] + 1); ds += od.v[K + j] + 1; }
        if (kind == 4 ? ds <= cs : ds > cs) continue;
        for (int i = 0; i < K * M; ++i) in.cost.push_back(costVals[od.v[K + M + i]]);
        f(in);
      }
    };
    std::vector<int> cv = {0, 1, 2};
    for (int K = 1; K <= maxN; ++K)
      for (int M = 1; M <= maxN; ++M) {
        gen(K, M, 0, cv, maxCap, maxDem);
        if (K * M <= 6 || th) {
          for (int kind = 1; kind <= 3; ++kind) gen(K, M, kind, cv, maxCap, maxDem);
          if (K * M <= 4 || th) for (int kind = 6; kind <= 7; ++kind) gen(K, M, kind, cv, maxCap, maxDem);
        }
        if (K * M <= 6 || th) gen(K, M, 4, cv, 2, 3);
      }
    // quantities beyond 2^31 (cell areas are 64-bit): small shapes with demands and capacities multiplied by 1.5e9
    for (int K = 1; K <= 3; ++K)
      for (int M = 1; M <= 2; ++M) gen(K, M, 5, {0, 1, 2}, 3, 2);
    // three sinks x four sources with binary costs: chains of two hops through full sinks
    gen(3, 4, 0, {0, 1}, 3, 3);
    // four sinks: assignment problems (unit demands and capacities), three cost values; quick: last sink free of charge
    {
      std::vector<int> radix(th ? 16 : 12, 3);
      for (vf::Odometer od(radix); !od.done; od.next()) {
        Inst in;
        in.kind = 0;
        in.cap = {1, 1, 1, 1};
        in.dem = {1, 1, 1, 1};
        for (size_t i = 0; i < radix.size(); ++i) in.cost.push_back(od.v[i]);
        while (in.cost.size() < 16) in.cost.push_back(0);
        f(in);
      }
    }
    // larger problems (kind 8; integer costs): 5..16 sinks x 8..33 sources, four cost patterns (distance-like, many ties, wide
    // spread, near-constant), three quantity patterns (unit, mixed with slack, mixed exactly balanced); min-cost-flow reference
    for (int K : {5, 9, 16})
      for (int M : {8, 20, 33})
        for (int cp = 0; cp < 4; ++cp)
          for (int qp = 0; qp < 3; ++qp) {
            Inst in;
            in.kind = 8;
            long long ds = 0;
            for (int j = 0; j < M; ++j) { long long d = qp == 0 ? 1 : 1 + (j * 5) % 3; in.dem.push_back(d); ds += d; }
            long long each = (ds + K - 1) / K;
            long long cs = 0;
            for (int i = 0; i < K; ++i) { long long c = qp == 1 ? each + 1 + i % 2 : each; in.cap.push_back(c); cs += c; }
            if (qp == 2) { long long extra = cs - ds; for (int i = 0; i < K && extra > 0; ++i) { long long t = std::min(extra, in.cap[i] - 1); in.cap[i] -= t; extra -= t; } }
            for (int i = 0; i < K; ++i)
              for (int j = 0; j < M; ++j) {
                int a = (j * K * 3) / M, c;
                if (cp == 0) c = std::abs(3 * i - a) + (i + j) % 2;
                else if (cp == 1) c = (i + j) % 3;
                else if (cp == 2) c = ((i * 7 + j * 11) % 13) * ((i + j) % 4 == 0 ? 1000 : 1);
                else c = 50 + (i * j) % 2;
                in.cost.push_back(c);
              }
            f(in);
          }
    // widely spread costs on 5..16 sinks (shortest-path labels are revised several times there): cost(i,j) =
    // mix(i, j, a, b) mod 1001 (a fixed integer mixing function) for every (a, b) in 1..40 x 1..40 (thorough: 1..64 x 1..64)
    {
      int G = th ? 64 : 40;
      for (int K : {5, 12, 16})
        for (int M : {10, 33, 60, 80})
          for (int a = 1; a <= G; ++a)
            for (int b = 1; b <= G; ++b) {
              Inst in;
              in.kind = 8;
              long long ds = 0;
              for (int j = 0; j < M; ++j) { long long d = 1 + (j * 5 + a) % 3; in.dem.push_back(d); ds += d; }
              long long each = (ds + K - 1) / K;
              for (int i = 0; i < K; ++i) in.cap.push_back(each + (i + b) % 2);
              for (int i = 0; i < K; ++i)
                for (int j = 0; j < M; ++j) {
                  // integer mixing of (i, j, a, b): values spread over 0..1000 without linear structure
                  uint32_t h = ((uint32_t)i * 73856093u) ^ ((uint32_t)j * 19349663u) ^ ((uint32_t)a * 83492791u) ^ ((uint32_t)b * 2654435761u);
                  h ^= h >> 15; h *= 2246822519u; h ^= h >> 13;
                  in.cost.push_back((int)(h % 1001));
                }
              f(in);
            }
    }
    if (th) {
      std::vector<int> wide = {0, 1, 3, 1000};
      gen(2, 2, 0, wide, 4, 3);
      gen(3, 2, 0, wide, 3, 3);
      gen(2, 3, 0, wide, 3, 2);
      gen(4, 2, 0, {0, 1, 3}, 3, 3);
      gen(2, 4, 0, {0, 1, 3}, 4, 2);
      gen(4, 3, 0, {0, 2}, 2, 2);
      gen(3, 3, 2, {0, 1, 2}, 3, 2);
    }
  };
  (void)maxCost;
  c.encode = enc;
  c.decode = dec;
  c.eval = eval;
  c.instanceTimeout = 20;
  c.deadline = th ? 3000 : 300;
  return vf::runCheck(o, c);
}
