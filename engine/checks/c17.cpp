// C17 — Continuous wirelength solver honours real-valued net weights.
#include "gp.hpp"
#include "place_global/net_model.hpp"

using namespace vg;

static bool gThorough = false;
static const float WEIGHTS[6] = {0.25f, 0.5f, 1.0f, 1.5f, 2.5f, 3.0f};
static const float SCALES[8] = {0.25f, 0.5f, 2.0f, 8.0f, 5.9604645e-8f /* 2^-24 */, 1048576.0f /* 2^20 */, 2.5f, 7.0f};  // first six: bitwise; last two: tolerance

struct Inst {
  int n;          // movable cells
  int structure;  // net structure index
  int wt;         // weight tuple, base 6
  int model;      // NetModelOption
  int penalty;    // penalty variant
  int placement;  // input placement variant
  int kind;       // 0 solver level, 1 Circuit::placeGlobal level
};

struct NetDef { std::vector<int> cells; std::vector<float> offs; };

static std::vector<NetDef> structureNets(int n, int st) {
  // cell -1 = fixed pin at absolute position = offset
  std::vector<NetDef> v;
  auto c = [&](int i) { return i % n; };
  if (st == 8) {
    // long chain of two-pin nets between fixed pins at 0 and 1000 (conjugate gradients need many iterations here)
    v.push_back({{0, -1}, {0, 0}});
    for (int i = 0; i + 1 < n; ++i) v.push_back({{i, i + 1}, {0, 0}});
    v.push_back({{n - 1, -1}, {0, 1000}});
    return v;
  }
  switch (st) {
    case 0: v = {{{c(0), c(1)}, {0, 0}}, {{c(1), -1}, {0.5f, 10}}}; break;
    case 1: v = {{{c(0), -1}, {0, -4}}, {{c(0), c(1)}, {1, -1}}, {{c(1), -1}, {0, 12}}}; break;
    case 2: v = {{{c(0), c(1), c(2)}, {0, 0.5f, -0.5f}}, {{c(2), -1}, {0, 20}}, {{c(0), -1}, {0, 0}}}; break;
    case 3: v = {{{c(0), c(1), c(2), -1}, {0, 1, 2, 9}}, {{c(1), c(3)}, {0, 0}}, {{c(3), -1, -1}, {0, -3, 15}}}; break;
    case 4: v = {{{c(0), c(0), c(1)}, {-1, 1, 0}}, {{c(1), -1}, {0, 6}}, {{c(0), -1}, {0, -6}}}; break;
    case 5: v = {{{c(0), c(1)}, {0, 0}}, {{c(1), c(2)}, {0, 0}}, {{c(2), c(3)}, {0, 0}}, {{c(3), -1}, {0, 30}}}; break;
    case 6: v = {{{c(0), c(1), c(2), c(3)}, {0, 0, 0, 0}}, {{c(0), -1}, {0, 2}}, {{c(3), -1}, {0, 17}}}; break;
    default: v = {{{c(0), -1}, {0.25f, 5}}, {{c(1), -1}, {0, 5}}, {{c(0), c(1), c(2)}, {2, 0, -2}}, {{c(2), -1, -1}, {0, 1, 8}}}; break;
  }
  return v;
}

static std::string enc(const Inst &i) {
  std::ostringstream o;
  o << i.n << " " << i.structure << " " << i.wt << " " << i.model << " " << i.penalty << " " << i.placement << " " << i.kind;
  return o.str();
}
static Inst dec(const std::string &s) {
  std::istringstream i(s);
  Inst in;
  i >> in.n >> in.structure >> in.wt >> in.model >> in.penalty >> in.placement >> in.kind;
  return in;
}

static NetModel buildModel(const Inst &in, float scale, std::vector<float> *weightsOut = nullptr) {
  NetModel m(in.n);
  auto nets = structureNets(in.n, in.structure);
  int wt = in.wt;
  int k = 0;
  for (auto &nd : nets) {
    float w = WEIGHTS[wt % 6] * scale;
    wt /= 6;
    if (in.structure == 8) { w = WEIGHTS[(k * 5 + in.wt) % 6] * (k % 4 == 1 ? 4.0f : 1.0f) * scale; }  // spread 0.25 .. 12
    ++k;
    if (weightsOut) weightsOut->push_back(w);
    m.addNet(nd.cells, nd.offs, w);
  }
  return m;
}

static bool sameBits(const std::vector<float> &a, const std::vector<float> &b) {
  return a.size() == b.size() && (a.empty() || memcmp(a.data(), b.data(), a.size() * sizeof(float)) == 0);
}

static vf::Verdicts eval(const Inst &in, vf::Ctx &ctx) {
  vf::Verdicts out;
  std::set<std::string> seen;
  auto fail = [&](const std::string &cls, const std::string &msg) {
    if (seen.insert(cls).second) out.push_back({cls, msg + " | " + enc(in)});
  };
  if (in.kind == 1) {
    // top level: two circuits differing only by a common power-of-two weight factor
    auto reps = gpRepresentatives();
    Spec s = reps[in.structure % reps.size()];
    int wt = in.wt;
    for (auto &nt : s.nets) { nt.weight = WEIGHTS[wt % 6]; wt /= 6; }
    s.devs = {{F_maxNbSteps, 6}, {F_netModel, (double)in.model}};
    Spec t = s;
    for (auto &nt : t.nets) nt.weight *= 4.0f;
    // the penalty is not a user-visible weight: scale it through its initial value
    t.devs.push_back({F_initialValue, (double)makeParams(s).global.penalty.initialValue * 4.0});  // whatever the default is
    Circuit a = build(s), b = build(t);
    // in.penalty == 1: a callback widens the movable cells at the first upper-bound step (allowed during global placement)
    auto resizer = [&](Circuit &c) {
      return [&c, done = false](PlacementStep st) mutable {
        if (st != PlacementStep::UpperBound || done) return;
        done = true;
        std::vector<int> w = c.cellWidth();
        for (int i = 0; i < c.nbCells(); ++i) if (!c.cellIsFixed()[i] && w[i] > 0) w[i] += 1;
        c.setCellWidth(w);
      };
    };
    CallResult ra = guarded([&] { if (in.penalty == 1) a.placeGlobal(makeParams(s), PlacementCallback(resizer(a))); else a.placeGlobal(makeParams(s)); });
    CallResult rb = guarded([&] { if (in.penalty == 1) b.placeGlobal(makeParams(t), PlacementCallback(resizer(b))); else b.placeGlobal(makeParams(t)); });
    if (ra.threw || rb.threw) { fail("placeGlobal-throws", ra.what + rb.what); return out; }
    if (a.cellX() != b.cellX() || a.cellY() != b.cellY())
      fail("placement-changes-under-common-weight-factor", "x4: " + placementStr(a) + " vs " + placementStr(b));
    ctx.nontrivial(vf::fnv(enc(in)));
    return out;
  }
  NetModel::Parameters params;
  params.netModel = (NetModelOption)in.model;
  params.approximationDistance = 1.0f;
  params.penaltyCutoffDistance = 4.0f;
  params.tolerance = 1.0e-6f;
  params.maxNbIterations = 1000;
  std::vector<float> pl(in.n), target(in.n), strength(in.n);
  for (int i = 0; i < in.n; ++i) {
    pl[i] = in.placement == 0 ? 3.0f * i + 1.0f : (in.placement == 1 ? 5.0f : 20.0f - 7.0f * i);
    target[i] = in.structure == 8 ? 25.0f * ((i * 7) % 40) : 2.0f + 4.0f * ((i * 3) % 5);
    strength[i] = in.penalty == 0 ? 0.0f : (in.penalty == 1 ? 0.5f : 0.125f * (i + 1));
  }
  std::vector<float> weights;
  NetModel base = buildModel(in, 1.0f, &weights);
  std::vector<float> r0Star = base.solveStar(params);
  std::vector<float> r0 = base.solve(pl, params);
  std::vector<float> r0Pen = base.solveWithPenalty(pl, target, strength, params);
  float span = in.structure == 8 ? 1000.0f : 40.0f;
  for (int k = 0; k < 8; ++k) {
    float sc = SCALES[k];
    NetModel m = buildModel(in, sc);
    std::vector<float> st2(in.n);
    for (int i = 0; i < in.n; ++i) st2[i] = strength[i] * sc;
    std::vector<float> aStar = m.solveStar(params), a = m.solve(pl, params), aPen = m.solveWithPenalty(pl, target, st2, params);
    ctx.count("solves", 3);
    if (k < 6) {
      if (!sameBits(aStar, r0Star)) fail("solveStar-not-invariant-under-power-of-two-scaling", "factor " + std::to_string(sc));
      if (!sameBits(a, r0)) fail("solve-not-invariant-under-power-of-two-scaling", "factor " + std::to_string(sc));
      if (!sameBits(aPen, r0Pen)) fail("solveWithPenalty-not-invariant-under-power-of-two-scaling", "factor " + std::to_string(sc));
    } else if (in.penalty != 0) {
      // every cell anchored by its penalty: results agree up to solver tolerance
      for (int i = 0; i < in.n; ++i)
        if (std::fabs(aPen[i] - r0Pen[i]) > 0.01f * span) fail("solveWithPenalty-changes-under-common-factor", "factor " + std::to_string(sc) + " cell " + std::to_string(i) + ": " + std::to_string(aPen[i]) + " vs " + std::to_string(r0Pen[i]));
    }
  }
  // initial star model = weighted least squares: check the normal equations in double
  {
    auto nets = structureNets(in.n, in.structure);
    std::vector<double> grad(in.n, 0.0), scaleRow(in.n, 0.0);
    for (size_t k = 0; k < nets.size(); ++k) {
      const NetDef &nd = nets[k];
      double w = weights[k];
      int np = nd.cells.size();
      auto pos = [&](int p) { return (nd.cells[p] == -1 ? 0.0 : (double)r0Star[nd.cells[p]]) + nd.offs[p]; };
      if (np == 2) {
        double d = pos(0) - pos(1);
        if (nd.cells[0] == nd.cells[1]) continue;
        if (nd.cells[0] >= 0) { grad[nd.cells[0]] += w * d; scaleRow[nd.cells[0]] += w * (std::fabs(pos(0)) + std::fabs(pos(1)) + 1); }
        if (nd.cells[1] >= 0) { grad[nd.cells[1]] -= w * d; scaleRow[nd.cells[1]] += w * (std::fabs(pos(0)) + std::fabs(pos(1)) + 1); }
      } else {
        double mean = 0;
        for (int p = 0; p < np; ++p) mean += pos(p);
        mean /= np;
        for (int p = 0; p < np; ++p)
          if (nd.cells[p] >= 0) { grad[nd.cells[p]] += (w / np) * (pos(p) - mean); scaleRow[nd.cells[p]] += (w / np) * (std::fabs(pos(p)) + std::fabs(mean) + 1); }
      }
    }
    for (int i = 0; i < in.n; ++i)
      if (std::fabs(grad[i]) > 2e-4 * (scaleRow[i] + 1e-9))
        fail("initial-star-solution-is-not-the-weighted-least-squares-optimum", "cell " + std::to_string(i) + " gradient " + std::to_string(grad[i]) + " scale " + std::to_string(scaleRow[i]));
  }
  bool fractional = false;
  for (float w : weights) if (w != std::floor(w)) fractional = true;
  if (fractional) ctx.nontrivial(vf::fnv(enc(in)));
  return out;
}

int main(int argc, char **argv) {
  vf::Opts o = vf::parseOpts(argc, argv);
  gThorough = o.thorough() && o.pass != "san";  // the secondary sanitizer pass of the thorough tier uses the quick alphabet
  vf::Check<Inst> c;
  c.property = "C17";
  c.level = "exploration";
  c.rule =
      "NetModel over 2..4 movable cells x 8 net structures (two-pin chains, fixed pins, 3- and 4-pin nets, repeated cells, offsets) x every weight tuple in "
      "{0.25,0.5,1,1.5,2.5,3}^nets (quick: first three nets vary) x 4 net models x 3 penalty variants x 3 input placements (spread, clumped, reversed): solveStar / solve / "
      "solveWithPenalty under a common factor {1/4,1/2,2,8,2^-24,2^20} on all weights and penalty strengths must return bit-identical vectors, under {2.5,7} the same within 1% of the span when "
      "every cell is anchored; the initial star solution must satisfy the normal equations of the documented weighted least-squares model (checked in double); plus chains of 16/24/40 cells between two fixed pins with weights spread over 0.25..12; plus "
      "Circuit::placeGlobal on circuits differing by a common factor 4, without and with a callback that resizes the cells at the first upper-bound step; non-trivial = a fractional weight is present";
  c.bounds = "n<=4, <=4 nets; chains of 16, 24, 40 cells";
  c.enumerate = [=](const std::function<void(const Inst &)> &f) {
    for (int n = 2; n <= 4; ++n)
      for (int st = 0; st < 8; ++st) {
        int nn = structureNets(n, st).size();
        int tuples = 1;
        for (int i = 0; i < std::min(nn, gThorough ? 4 : 3); ++i) tuples *= 6;
        for (int wt = 0; wt < tuples; ++wt)
          for (int model = 0; model < 4; ++model)
            for (int pen = 0; pen < 3; ++pen)
              for (int plc = 0; plc < 3; ++plc) {
                if (!gThorough && (wt + model + pen + plc) % 2) continue;
                f(Inst{n, st, wt, model, pen, plc, 0});
              }
      }
    // long chains (16, 24, 40 cells): six weight patterns x 4 models x 3 penalties x 3 placements
    for (int n : {16, 24, 40})
      for (int wt = 0; wt < 6; ++wt)
        for (int model = 0; model < 4; ++model)
          for (int pen = 0; pen < 3; ++pen)
            for (int plc = 0; plc < 3; ++plc) f(Inst{n, 8, wt, model, pen, plc, 0});
    for (int st = 0; st < 4; ++st)
      for (int wt = 0; wt < 36; ++wt)
        for (int model = 0; model < 4; ++model)
          for (int resize = 0; resize < 2; ++resize) f(Inst{0, st, wt * 7 % 216, model, resize, 0, 1});
  };
  c.encode = enc;
  c.decode = dec;
  c.eval = eval;
  c.deadline = gThorough ? 3000 : 300;
  return vf::runCheck(o, c);
}
