// C11 — Legalization does not move an already legal single-row placement.
#include "tca.hpp"

using namespace vt;

static bool gThorough = false;

// aux: 0 = constructed legal placement, 1 = arbitrary input: legalize once, then again
static void enumerateAll(const std::function<void(const Spec &)> &f0) {
  // every 53rd instance also scaled by (9001, 11003) and by (30011, 20011): coordinates stay below 2^20 (the property's domain); first scale: cell areas below
  // 2^31, but width x vertical distance to the rows beyond the neighbouring one exceeds 2^31
  auto f = withMagnitudes(f0, 53, {{1, 9001, 11003}, {1, 30011, 20011}});
  std::vector<ParamAlt> pm = legalizeParamMenu();
  long long histCounter = 0;
  auto withParams = [&](const Spec &s, bool all) {
    f(s);
    bool anyFixed = false;
    for (auto &cs : s.cells) anyFixed |= cs.fixed;
    if (anyFixed && s.aux == 0 && histCounter++ % 3 == 0) { Spec h = s; h.aux = 2; f(h); }
    if (!all) return;
    for (auto &pa : pm) { Spec d = s; d.devs.push_back({pa.field, pa.value}); f(d); }
    for (int e : {1, 9}) { Spec d = s; d.effort = e; f(d); }
  };
  // (a) constructed placements
  for (int rh : {2, 1}) {
    auto Ls = layouts(rh, gThorough);
    for (size_t li = 0; li < Ls.size(); ++li) {
      const Layout &l = Ls[li];
      // obstruction variants: none, an in-row block, a partial-height block (both obstruct the columns)
      for (int ov = 0; ov < (rh == 2 ? 4 : 2); ++ov) {
        std::vector<CellSpec> fixedCells;
        if (ov == 1) { CellSpec c; c.w = 1; c.h = rh; c.x = l.x0 + 2; c.y = l.y0; c.fixed = true; c.obstruction = true; fixedCells.push_back(c); }
        if (ov == 2) { CellSpec c; c.w = 1; c.h = 1; c.x = l.x0 + 1; c.y = l.y0 + rh - 1; c.fixed = true; c.obstruction = true; fixedCells.push_back(c);
                       CellSpec d; d.w = 2; d.h = rh; d.x = l.x0 + 3; d.y = l.y0; d.fixed = true; d.obstruction = false; fixedCells.push_back(d); }
        // a turned, non-square fixed obstruction: raw 3 x rh stored with orientation E, footprint rh wide and 3 high
        if (ov == 3) { CellSpec c; c.w = 3; c.h = rh; c.x = l.x0 + 1; c.y = l.y0; c.orient = oE; c.fixed = true; c.obstruction = true; fixedCells.push_back(c); }
        std::vector<Rect> obs;
        for (auto &c : fixedCells)
          if (c.obstruction) {
            int pw = turned(c.orient) ? c.h : c.w, ph = turned(c.orient) ? c.w : c.h;
            obs.push_back({c.x, c.x + pw, c.y, c.y + ph});
          }
        // free sites: (row index, x) lists
        struct Seg { int row; long long a, b; };
        std::vector<Seg> segs;
        for (size_t r = 0; r < l.rows.size(); ++r)
          for (auto &run : freeRuns(l.rows[r], obs)) segs.push_back({(int)r, run.first, run.second});
        int maxCells = gThorough ? 4 : 3;
        std::vector<int> widths = (rh == 2) ? std::vector<int>{1, 2, 3} : std::vector<int>{1, 2};
        for (int n = 1; n <= maxCells; ++n) {
          if (n == 4 && li > 6) continue;
          std::vector<int> wr(n, widths.size());
          for (vf::Odometer wo(wr); !wo.done; wo.next()) {
            bool nd = true;
            for (int i = 0; i + 1 < n; ++i) if (wo.v[i] > wo.v[i + 1] && n >= 3) nd = false;  // n>=3: non-decreasing widths only
            if (!nd) continue;
            // polarity variants: all ANY; (rh==2 only) one polarity for all cells
            for (int pol = 0; pol < (rh == 2 ? 5 : 1); ++pol) {
              if (pol != 0 && n > 2 && !gThorough) continue;
              // enumerate positions recursively
              std::vector<CellSpec> placed;
              std::function<void(int)> rec = [&](int i) {
                if (i == n) {
                  Spec s;
                  s.rows = l.rows;
                  s.cells = placed;
                  for (auto &fc : fixedCells) s.cells.push_back(fc);
                  s.aux = 0;
                  bool sparse = n <= 2;
                  withParams(s, sparse || (gThorough && n <= 3));
                  return;
                }
                int w = widths[wo.v[i]];
                for (auto &sg : segs) {
                  int ro = l.rows[sg.row].orient;
                  int want = prescribedOrientation(pol, ro);
                  if (want == -1) continue;
                  for (long long x = sg.a; x + w <= sg.b; ++x) {
                    bool clash = false;
                    for (auto &p : placed)
                      if (p.y == l.rows[sg.row].minY && x < p.x + p.w && p.x < x + w) clash = true;
                    if (clash) continue;
                    CellSpec c;
                    c.w = w; c.h = rh; c.x = (int)x; c.y = l.rows[sg.row].minY; c.polarity = pol;
                    c.orient = want == -2 ? oN : want;
                    placed.push_back(c);
                    rec(i + 1);
                    placed.pop_back();
                  }
                }
              };
              rec(0);
            }
          }
        }
      }
    }
  }
  // (a') abutting cells of very different widths (the ordering key mixes x, width and y): rows 10 wide, widths {1, 7, 8}
  for (int nrows : {1, 2}) {
    std::vector<RowSpec> rows;
    for (int r = 0; r < nrows; ++r) rows.push_back(mkRow(0, 10, r, 2, r % 2 ? oFS : oN));
    std::vector<int> W = {1, 7, 8};
    for (int wa : W)
      for (int wb : W)
        for (int ra = 0; ra < nrows; ++ra)
          for (int rb = 0; rb < nrows; ++rb)
            for (int xa = 0; xa + wa <= 10; ++xa)
              for (int xb = 0; xb + wb <= 10; ++xb) {
                if (ra == rb && xa < xb + wb && xb < xa + wa) continue;
                Spec s;
                s.rows = rows;
                CellSpec a; a.w = wa; a.h = 2; a.x = xa; a.y = 2 * ra;
                CellSpec b; b.w = wb; b.h = 2; b.x = xb; b.y = 2 * rb;
                s.cells = {a, b};
                s.aux = 0;
                withParams(s, true);
              }
  }
  // (m) medium-size family (row-high cells only): legalize, then legalize again
  {
    MediumCfg mc;
    mc.tall = false;
    mc.stride = gThorough ? 1 : 2;
    enumerateMedium(mc, [&](const Spec &s) { Spec t = s; t.aux = 1; f0(t); });
  }
  // (b) placements produced by legalization itself from arbitrary inputs
  Cfg b;
  b.rhs = {2};
  b.maxCells = gThorough ? 4 : 3;
  b.hmults = {1};
  b.pointLevel = gThorough ? 2 : 1;
  b.thoroughLayouts = gThorough;
  DevMenu m;
  m.orientation = false;  // turned cells would not be row-high any more
  m.params = legalizeParamMenu();
  m.efforts = {1, 9};
  enumerateBase(b, [&](const Spec &base, const Layout &l, int rh) {
    Spec s = base;
    s.aux = 1;
    f(s);
    if (base.cells.size() <= 2 || gThorough)
      enumerateDeviations(base, l, rh, m, [&](const Spec &s1) {
        bool ok = true;
        for (auto &c : s1.cells) if (!c.fixed && (turned(c.orient) ? c.w : c.h) != rh) ok = false;
        if (!ok) return;
        Spec t = s1;
        t.aux = 1;
        f(t);
      });
  });
}

static vf::Verdicts eval(const Spec &s, vf::Ctx &ctx) {
  vf::Verdicts out;
  ColoquinteParameters params = makeParams(s);
  if (!paramsAccepted(params)) { ctx.count("skipped_rejected_params"); return out; }
  if (!inDomain(s)) { ctx.count("skipped_out_of_domain"); return out; }
  double ow = params.legalization.orderingWidth;
  std::string suffix = (ow < 0.0 || ow > 1.0) ? ":orderingWidth-outside-[0,1]" : "";
  Circuit c = build(s);
  if (s.aux == 2) {
    // history on the object: it starts with its fixed cells elsewhere (shifted, and turned where that changes the footprint),
    // is legalized once, and is then brought to the placement under test through setSolution alone
    Spec h = s;
    for (auto &cs : h.cells)
      if (cs.fixed) { cs.x += 2; cs.y += (cs.h > 1 ? 1 : 0); }
    c = build(h);
    guarded([&] { c.legalize(params); });
    PlacementSolution sol;
    for (auto &cs : s.cells) sol.emplace_back(cs.x, cs.y, (CellOrientation)cs.orient);
    c.setSolution(sol);
    ctx.count("placements_reached_through_a_history");
  }
  if (s.aux == 1) {
    CallResult r = guarded([&] { c.legalize(params); });
    if (r.threw) { ctx.count("first_legalization_refused"); return out; }
    if (!legality(c).empty()) { ctx.count("first_legalization_illegal_skipped"); return out; }  // C01's business
  } else {
    std::string why = legality(c);
    if (!why.empty()) { out.push_back({"HARNESS-constructed-placement-illegal:" + why, describe(s)}); return out; }
    std::vector<int> o0;
    for (auto &cs : s.cells) o0.push_back(cs.orient);
    if (!polarityCheck(c, o0).empty()) { out.push_back({"HARNESS-constructed-placement-polarity", describe(s)}); return out; }
  }
  Snapshot before = snapshot(c);
  CallResult r = guarded([&] { c.legalize(params); });
  if (r.threw) {
    out.push_back({"legal-placement-refused" + suffix, "legalize threw '" + r.what + "' on a legal placement " + placementStr(c) + " | " + describe(s)});
    return out;
  }
  Snapshot after = snapshot(c);
  if (!samePlacement(before, after)) {
    std::ostringstream m;
    m << "legal placement ";
    for (size_t i = 0; i < before.x.size(); ++i) m << "(" << before.x[i] << "," << before.y[i] << ",o" << before.orient[i] << ")";
    m << " moved to " << placementStr(c);
    out.push_back({"legal-placement-moved" + suffix, m.str() + " | " + describe(s)});
  }
  int movable = 0;
  for (auto &cs : s.cells) movable += !cs.fixed;
  if (movable >= 2) ctx.nontrivial(hashSpec(s));
  ctx.count(s.aux == 1 ? "placements_from_legalization" : "constructed_placements");
  return out;
}

int main(int argc, char **argv) {
  vf::Opts o = vf::parseOpts(argc, argv);
  gThorough = o.thorough() && o.pass != "san";  // the secondary sanitizer pass of the thorough tier uses the quick alphabet
  vf::Check<Spec> c;
  c.property = "C11";
  c.level = "exploration";
  c.rule =
      "(a) every legal placement (a third of those with fixed cells also reached through a history on the object: fixed cells elsewhere, one legalization, then setSolution) of 1..3 (4) row-high cells (widths 1..3) constructed combinatorially in the free segments of every layout of the list (row heights 2 and 1, "
      "with no / in-row / partial-height obstruction and a fixed non-obstruction cell), all cells of one polarity in {ANY,SAME,OPPOSITE,NW,SE} with the prescribed orientation; "
      "(b) every placement produced by Circuit::legalize itself from the tiny-circuit alphabet restricted to row-high cells (positions incl. outside/far, deviations of polarity, "
      "fixed cells, parameters); each x legalization parameter deviations (all of them on placements with <= 2 cells, thorough: on all); oracle: a second legalize leaves x, y and "
      "orientation of every cell unchanged; non-trivial = at least two movable cells";
  c.bounds = gThorough ? "n<=4" : "n<=3";
  c.enumerate = enumerateAll;
  c.encode = [](const Spec &s) { return encode(s); };
  c.decode = [](const std::string &s) { return decode(s); };
  c.eval = eval;
  c.primers = legalizationPrimers();
  c.deadline = gThorough ? 3000 : 300;
  return vf::runCheck(o, c);
}
