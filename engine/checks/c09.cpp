// C09 — Wirelength is geometrically exact and incrementally consistent.
// (a) exhaustive orientation x size x pin-offset enumeration against a
//     rotation-matrix oracle; (b) explicit-state search over updateCellPos on
//     the real IncrNetModel for every subset of modelled cells.
#include <deque>
#include <unordered_map>

#include "place_detailed/incr_net_model.hpp"
#include "detailed.hpp"

using namespace vt;

// aux: 0 = geometric case, 1 = incremental-model graph (aux2 = subset mask), 2 = DetailedPlacer pass graph (value() vs from-scratch)
static void enumerateAll(bool th, const std::function<void(const Spec &)> &f) {
  vd::enumerateDetailed(th, vd::M_C09, [&](const Spec &s) {
    if (s.aux == 2) f(s);
  });
  // (a) cell A: every orientation, raw size, pin offset; partner cell B from a menu
  std::vector<CellSpec> partners;
  {
    CellSpec b; b.w = 2; b.h = 3; b.x = 7; b.y = -4; b.orient = oN; partners.push_back(b);
    b.orient = oE; b.fixed = true; partners.push_back(b);
    b.orient = oFS; b.x = -6; b.y = 5; b.fixed = false; partners.push_back(b);
    b.orient = oFW; b.w = 3; b.h = 1; b.x = 0; b.y = 0; partners.push_back(b);
  }
  int pmin = -1, pmax = 4;
  for (int w = 1; w <= 3; ++w)
    for (int h = 1; h <= 3; ++h)
      for (int o = 0; o < 8; ++o)
        for (int px = pmin; px <= pmax; ++px)
          for (int py = pmin; py <= pmax; ++py)
            for (size_t pi = 0; pi < partners.size(); ++pi)
              for (int pos = 0; pos < (th ? 3 : 2); ++pos) {
                Spec s;
                s.rows = {mkRow(0, 10, 0, 1, oN)};
                CellSpec a; a.w = w; a.h = h; a.orient = o;
                a.x = pos == 0 ? 0 : (pos == 1 ? -5 : 13); a.y = pos == 0 ? 0 : (pos == 1 ? 9 : -2);
                s.cells = {a, partners[pi]};
                NetSpec n1; n1.pins = {{0, px, py}, {1, 1, 2}};
                NetSpec n2; n2.pins = {{0, px, py}, {0, py, px}, {1, 0, 0}};  // repeated cell
                NetSpec n3; n3.pins = {{0, px, py}};                             // single pin
                NetSpec n4; n4.pins = {{1, 2, 1}, {1, -1, 0}};                   // both pins on the partner
                s.nets = {n1, n2, n3, n4};
                s.aux = 0;
                f(s);
              }
  // (a') extreme spans: each dimension of a net's bounding box fits in an int (2.1e9 < 2^31) but their sum does not
  for (int o = 0; o < 8; ++o)
    for (int w = 1; w <= 2; ++w)
      for (int far = 0; far < 4; ++far) {
        Spec s;
        s.rows = {mkRow(0, 10, 0, 1, oN)};
        const int D = 1050000000;
        CellSpec a; a.w = w; a.h = 3 - w; a.orient = o; a.x = (far & 1) ? D : -D; a.y = (far & 2) ? D : -D;
        CellSpec b; b.w = 2; b.h = 1; b.orient = (o * 3 + 1) % 8; b.x = -a.x; b.y = -a.y; b.fixed = (far == 3);
        CellSpec m; m.w = 1; m.h = 1; m.x = 3; m.y = -7;
        s.cells = {a, b, m};
        NetSpec n1; n1.pins = {{0, 1, 0}, {1, 0, 1}};
        NetSpec n2; n2.pins = {{0, 0, 1}, {2, 0, 0}, {1, 1, 0}};
        NetSpec n3; n3.pins = {{2, 0, 0}, {1, 0, 0}};
        s.nets = {n1, n2, n3};
        s.aux = 0;
        f(s);
      }
  // (b') wide nets: 20 cells, one net over all of them, one over 17, a few small ones, pins with offsets; every cell modelled,
  // positions from a wider menu, depth 2 (the per-net extent bookkeeping has to survive moves of the extreme pins)
  for (int variant = 0; variant < 3; ++variant) {
    Spec s;
    s.rows = {mkRow(0, 70, 0, 2, oN)};
    int n = 20;
    for (int i = 0; i < n; ++i) {
      CellSpec c; c.w = 1 + i % 3; c.h = 2; c.x = 3 * i; c.y = 2 * (i % 3);
      if (variant == 1) c.orient = (i * 3) % 8;
      if (variant == 2 && i % 5 == 0) c.fixed = true;
      s.cells.push_back(c);
    }
    NetSpec all, most, ends;
    for (int i = 0; i < n; ++i) all.pins.push_back({i, (i % 3) - 1, (i % 2) * 2});
    for (int i = 0; i < 17; ++i) most.pins.push_back({(i * 7) % n, 2 - i % 4, i % 3});
    ends.pins = {{0, 2, 0}, {n - 1, -1, 1}, {n / 2, 0, 0}};
    s.nets = {all, most, ends};
    s.aux = 1;
    s.aux2 = (1 << n) - 1;
    f(s);
  }
  // (b) incremental model graphs: small circuits from the tiny-circuit alphabet with a net menu
  Cfg cfg;
  cfg.rhs = {2};
  cfg.minCells = 2;
  cfg.maxCells = th ? 4 : 3;
  cfg.widths = {1, 3};
  cfg.hmults = {1, 2};
  cfg.pointLevel = 0;
  cfg.layoutFilter = {2, 6};
  cfg.diagonalPositionsOnly = true;
  enumerateBase(cfg, [&](const Spec &base, const Layout &, int) {
    int n = base.cells.size();
    for (int orientVariant = 0; orientVariant < 3; ++orientVariant) {
      Spec b = base;
      if (orientVariant == 1) for (int i = 0; i < n; ++i) setOrientation(b.cells[i], (i * 3 + 1) % 8);
      if (orientVariant == 2) { b.cells[0].fixed = true; setOrientation(b.cells[n - 1], oFE); }
      auto menu = netMenu(b, 1);
      for (size_t k = 1; k < menu.size(); ++k) {
        Spec s = b;
        s.nets = menu[k];
        s.nets.push_back(NetSpec{});  // an empty net is skipped by addNet: harmless
        s.nets.pop_back();
        for (int mask = 1; mask < (1 << n); ++mask) {
          Spec t = s;
          t.aux = 1;
          t.aux2 = mask;
          f(t);
        }
      }
    }
  });
}

static vf::Verdicts eval(const Spec &s, vf::Ctx &ctx, bool th) {
  vf::Verdicts out;
  std::set<std::string> seen;
  auto fail = [&](const std::string &cls, const std::string &msg) {
    if (seen.insert(cls).second) out.push_back({cls, msg + " | " + describe(s)});
  };
  if (s.aux == 2) {
    vd::Sink sink;
    vd::evalPasses(s, ctx, vd::M_C09, sink, th ? 3 : 2, th);
    return sink.out;
  }
  Circuit c = build(s);
  if (s.aux == 0) {
    long long ref = refHpwl(c);
    long long got = c.hpwl();
    if (ref != got) fail("hpwl-differs-from-rotation-oracle", "hpwl() " + std::to_string(got) + " oracle " + std::to_string(ref));
    for (int i = 0; i < c.nbCells(); ++i) {
      long long ox, oy, pw, ph;
      orientedPin(s.cells[i].orient, s.cells[i].w, s.cells[i].h, 0, 0, ox, oy, pw, ph);
      if (c.placedWidth(i) != pw || c.placedHeight(i) != ph) fail("placed-size-differs", "cell " + std::to_string(i));
    }
    // per-pin offsets
    for (int n = 0; n < c.nbNets(); ++n)
      for (int p = 0; p < c.nbPinsNet(n); ++p) {
        int cell = c.pinCell(n, p);
        long long ox, oy, pw, ph;
        orientedPin(s.cells[cell].orient, s.cells[cell].w, s.cells[cell].h, s.nets[n].pins[p][1], s.nets[n].pins[p][2], ox, oy, pw, ph);
        if (c.pinXOffset(n, p) != ox || c.pinYOffset(n, p) != oy) fail("pin-offset-differs", "net " + std::to_string(n) + " pin " + std::to_string(p));
      }
    ctx.nontrivial(hashSpec(s));
    return out;
  }
  // (b) graph over position updates
  std::vector<int> cells;
  for (int i = 0; i < c.nbCells(); ++i)
    if (s.aux2 & (1 << i)) cells.push_back(i);
  for (int topo = 0; topo < 2; ++topo) {
    std::optional<IncrNetModel> init;
    CallResult br = guarded([&] { init.emplace(topo == 0 ? IncrNetModel::xTopology(c, cells) : IncrNetModel::yTopology(c, cells)); });
    if (br.threw) { fail("model-construction-throws", br.what); continue; }
    auto reference = [&](const IncrNetModel &m) {
      Circuit cc = c;
      for (size_t k = 0; k < cells.size(); ++k) {
        if (topo == 0) cc.cellX_[cells[k]] = m.cellPos(k);
        else cc.cellY_[cells[k]] = m.cellPos(k);
      }
      long long xp, yp;
      refHpwl(cc, false, &xp, &yp);
      return topo == 0 ? xp : yp;
    };
    auto canon = [&](const IncrNetModel &m) {
      std::string k;
      for (size_t i = 0; i < cells.size(); ++i) k += std::to_string(m.cellPos(i)) + ",";
      return k;
    };
    if (init->value() != reference(*init)) fail("initial-value-differs", "topology " + std::to_string(topo) + " value " + std::to_string(init->value()) + " oracle " + std::to_string(reference(*init)));
    struct St { IncrNetModel m; int parent; int cell, pos, depth; };
    std::vector<St> states;
    std::unordered_map<std::string, int> idx;
    states.push_back({*init, -1, 0, 0, 0});
    idx[canon(*init)] = 0;
    const int P[5] = {-3, 0, 1, 2, 7};
    const int PW[6] = {-3, 5, 23, 31, 58, 66};  // wide-net circuits: across the whole span
    int maxDepth = th ? 4 : 3;
    bool wide = cells.size() > 6;
    if (wide) maxDepth = 2;
    for (size_t cur = 0; cur < states.size(); ++cur) {
      if (states[cur].depth >= maxDepth) continue;
      for (size_t k = 0; k < cells.size(); ++k)
        for (int pi = 0; pi < (wide ? 6 : 5); ++pi) {
          int p = wide ? PW[pi] : P[pi];
          IncrNetModel m = states[cur].m;
          m.updateCellPos(k, p);
          ctx.count("transitions");
          long long ref = reference(m);
          if (m.value() != ref)
            fail("incremental-value-drifts", "topology " + std::to_string(topo) + " after updateCellPos(" + std::to_string(k) + "," + std::to_string(p) + ") at depth " +
                                                 std::to_string(states[cur].depth + 1) + ": value " + std::to_string(m.value()) + " oracle " + std::to_string(ref));
          CallResult cr = guarded([&] { m.check(); });
          if (cr.threw) fail("model-check-fails", cr.what);
          std::string key = canon(m);
          if (idx.count(key)) {
            // same positions reached by another history: same value required (differential oracle)
            if (states[idx[key]].m.value() != m.value()) fail("value-depends-on-history", key);
            continue;
          }
          idx[key] = states.size();
          states.push_back({m, (int)cur, (int)k, p, states[cur].depth + 1});
          // validate the trace by replaying the history on a fresh model
          std::vector<std::pair<int, int>> hist;
          for (int i = states.size() - 1; states[i].parent >= 0; i = states[i].parent) hist.push_back({states[i].cell, states[i].pos});
          IncrNetModel rp = *init;
          for (auto it = hist.rbegin(); it != hist.rend(); ++it) rp.updateCellPos(it->first, it->second);
          if (rp.value() != m.value() || canon(rp) != key) fail("HARNESS-replay-diverges", key);
          ctx.count("traces_validated_against_impl");
        }
    }
    ctx.count("states", states.size());
  }
  ctx.nontrivial(hashSpec(s));
  return out;
}

int main(int argc, char **argv) {
  vf::Opts o = vf::parseOpts(argc, argv);
  bool th = o.thorough() && o.pass != "san";  // the secondary sanitizer pass of the thorough tier uses the quick alphabet
  vf::Check<Spec> c;
  c.property = "C09";
  c.level = "model_checking";
  c.rule =
      "(a) cell A with every raw size {1..3}^2 x 8 orientations x pin offset {-1..4}^2 x 2(3) positions against 4 partner cells (movable/fixed, N/E/FS/FW), nets: two-pin, "
      "repeated cell, single pin, both pins on the partner; oracle applies the DEF orientation as a 2x2 integer matrix to the cell rectangle and the pin and re-anchors the "
      "bounding box (no table of flipped orientations), also checked per pin and for placedWidth/Height. (b) breadth-first search over updateCellPos(c,p), p in "
      "{-3,0,1,2,7}, depth 3(4), on the real IncrNetModel (x and y topology) built over EVERY non-empty subset of the cells of small circuits (2..3(4) cells, three "
      "orientation variants incl. a fixed cell, net menu with repeated cells / single pins / weights); states deduplicated on the position vector; value() compared with "
      "the from-scratch oracle in every state and with the value reached by other histories. (c) breadth-first search over the optimiser passes of DetailedPlacer (runSwaps/runInserts/runShifts/runReordering, window menu, depth 2(3)) on small legalized circuits: DetailedPlacer::value() equals the from-scratch wirelength of the exported placement and check() passes in every state";
  c.bounds = th ? "n<=4, depth 4" : "n<=3, depth 3";
  c.assumptions = {"IncrNetModel is copied to branch; every new state is re-derived by replaying its update history on a fresh model"};
  c.enumerate = [=](const std::function<void(const Spec &)> &f) { enumerateAll(th, f); };
  c.encode = [](const Spec &s) { return encode(s); };
  c.decode = [](const std::string &s) { return decode(s); };
  c.eval = [=](const Spec &s, vf::Ctx &ctx) { return eval(s, ctx, th); };
  c.instanceTimeout = 60;
  c.deadline = th ? 3000 : 300;
  return vf::runCheck(o, c);
}
