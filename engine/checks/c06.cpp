// C06 — Global placement stays inside the placement area and exports the blend.
#include "gp.hpp"

using namespace vg;

static bool gThorough = false;

// The same placed geometry reached through a turned orientation: every movable non-square cell gets its library size swapped
// and is turned by a quarter (W, E, FW, FE in turn), so that placed size == the base instance's size while library size differs.
static Spec turnedCopy(Spec s, int k) {
  static const int quarter[4] = {2, 3, 6, 7};
  int j = 0;
  for (auto &c : s.cells) {
    if (c.fixed || c.w == c.h) continue;
    std::swap(c.w, c.h);
    c.orient = quarter[(k + j++) % 4];
  }
  return s;
}

static void enumerateAll(const std::function<void(const Spec &)> &f) {
  std::vector<ParamAlt> menu = gpParamMenu(0);
  int i = 0;
  enumerateGpBase(gThorough ? 1 : 0, [&](const Spec &base, const GpShape &) {
    Spec s = base;
    f(s);
    // every fourth instance also with a callback that widens the movable cells at the first upper bound (allowed there)
    if (i % 4 == 2) { Spec rz = s; rz.aux = 2; f(rz); }
    // every fourth instance also with its movable non-square cells turned by a quarter (placed sizes unchanged), plain and
    // with the x unit stretched so that the two library dimensions differ by much more than a bin
    if (i % 4 == 1) { Spec t = turnedCopy(s, i); f(t); f(turnedCopy(scaled(s, 9, 1), i)); }
    // every single parameter deviation on a fixed subset of the base (all of it in thorough)
    bool dev = gThorough ? (i % 4 == 0) : (i % 24 == 0);
    ++i;
    if (dev) {
      for (auto &pa : menu) { Spec d = s; d.devs.push_back({pa.field, pa.value}); f(d); }
      for (int e = 1; e <= 9; ++e) { if (e == 3) continue; Spec d = s; d.effort = e; f(d); }
      if (gThorough && i % 16 == 1)
        for (size_t a = 0; a < menu.size(); a += 3)
          for (size_t b = a + 1; b < menu.size(); b += 5) {
            if (menu[a].field == menu[b].field) continue;
            Spec d = s;
            d.devs.push_back({menu[a].field, menu[a].value});
            d.devs.push_back({menu[b].field, menu[b].value});
            f(d);
          }
    }
  });
  // medium-size designs (12..40 cells on 4..10 rows, several levels of the bin hierarchy): every 12th member of the grid, and
  // every 36th with the reoptimisation windows and cost models away from the defaults
  {
    MediumCfg mc;
    mc.polarities = false;
    mc.stride = gThorough ? 4 : 12;
    int k = 0;
    enumerateMedium(mc, [&](const Spec &m) {
      Spec s = m;
      s.aux = 0;
      f(s);
      // every other one also at (9001, 11003) units per grid step: each cell area stays below 2^31, the total demand does not
      if (k % 2 == 0) f(scaled(s, 9001, 11003));
      // every third one with the movable cells turned by a quarter (library sizes swapped, same placed geometry)
      if (k % 3 == 1) { f(turnedCopy(s, k)); f(turnedCopy(scaled(s, 7, 1), k)); }
      if (k++ % 3 == 0) {
        for (int variant = 0; variant < 3; ++variant) {
          Spec d = s;
          if (variant == 0) { d.devs.push_back({F_squareReoptSize, 3}); d.devs.push_back({F_lineReoptSize, 4}); d.devs.push_back({F_diagReoptSize, 3}); }
          if (variant == 1) { d.devs.push_back({F_rlCostModel, 1}); d.devs.push_back({F_binSize, 2.0}); }
          if (variant == 2) { d.devs.push_back({F_netModel, 2}); d.devs.push_back({F_binSize, 1.0}); d.effort = 6; }
          f(d);
        }
      }
    });
  }
  // zero-area movable cells on every shape of the alphabet (rows at positive, negative and mixed coordinates, wide and tall areas),
  // unconnected or tied to a terminal above / below / beside the rows
  {
    auto shapes = gpShapes(1);
    auto sets = gpCellSets(1);
    for (auto &g : shapes)
      for (int zw = 0; zw < 2; ++zw)
        for (int tie = 0; tie < 4; ++tie) {
          Spec s = gpSpec(g, sets[1], 1, 1, 1);
          int n = s.cells.size();
          CellSpec z; z.w = zw ? 0 : 2; z.h = zw ? g.rh : 0; z.x = g.x0 + 1; z.y = g.y0;
          s.cells.push_back(z);
          if (tie) {
            CellSpec pad; pad.w = 0; pad.h = 0; pad.fixed = true;
            pad.x = tie == 3 ? g.x0 + g.W + 40 : g.x0 + 2;
            pad.y = tie == 1 ? g.y0 + g.nY * g.rh + 40 : (tie == 2 ? g.y0 - 40 : g.y0);
            s.cells.push_back(pad);
            NetSpec nt; nt.pins = {{n, 0, 0}, {n + 1, 0, 0}};
            s.nets.push_back(nt);
          }
          s.aux = 1;
          f(s);
        }
  }
  // pad-dominated designs: a few small movable cells and many zero-area fixed terminals around the rows, each tied to a
  // movable cell (the movable area is smaller than the number of cells; averages per cell drop below one unit)
  {
    auto shapes = gpShapes(1);
    auto sets = gpCellSets(1);
    for (size_t gi = 0; gi < shapes.size(); gi += (gThorough ? 1 : 2))
      for (int nPads : {12, 30}) {
        const GpShape &g = shapes[gi];
        Spec s = gpSpec(g, sets[gi % 2 ? 1 : 5], 0, 0, gi % 3);
        int nMov = s.cells.size();
        for (int k = 0; k < nPads; ++k) {
          CellSpec pad; pad.w = 0; pad.h = 0; pad.fixed = true;
          int side = k % 4, t = k / 4;
          pad.x = side == 0 ? g.x0 - 3 : (side == 1 ? g.x0 + g.W + 3 : g.x0 + (t * 5) % std::max(1, g.W));
          pad.y = side == 2 ? g.y0 - 3 : (side == 3 ? g.y0 + g.nY * g.rh + 3 : g.y0 + (t * 3) % std::max(1, g.nY * g.rh));
          s.cells.push_back(pad);
          NetSpec nt; nt.pins = {{k % nMov, 0, 0}, {nMov + k, 0, 0}};
          s.nets.push_back(nt);
        }
        s.aux = 1;
        f(s);
      }
  }
  for (auto &base : gpRepresentatives()) {
    Spec s = base;
    CellSpec z; z.w = 0; z.h = s.rows[0].maxY - s.rows[0].minY; z.x = s.rows[0].minX + 1; z.y = s.rows[0].minY;
    s.cells.push_back(z);
    s.aux = 1;
    f(s);
    Spec t = s; t.cells.back().w = 2; t.cells.back().h = 0; f(t);
  }
}

static vf::Verdicts eval(const Spec &s, vf::Ctx &ctx) {
  vf::Verdicts out;
  std::set<std::string> seen;
  auto fail = [&](const std::string &cls, const std::string &msg) {
    if (seen.insert(cls).second) out.push_back({cls, msg + " | " + describe(s)});
  };
  ColoquinteParameters params = makeParams(s);
  if (!paramsAccepted(params)) { ctx.count("skipped_rejected_params"); return out; }
  Circuit c = build(s);
  // domain: at least one free row must survive the side margin
  {
    int minH = INT32_MAX;
    for (auto &cs : s.cells) if (cs.h > 0) minH = std::min(minH, cs.h);
    int margin = (int)(params.global.roughLegalization.sideMargin * minH);
    std::vector<Rect> obs = obstructions(c);
    bool any = false;
    for (auto &r : s.rows)
      for (auto &run : freeRuns(r, obs)) if (run.second - run.first > 2LL * margin) any = true;
    if (!any) { ctx.count("skipped_every_row_clipped_away"); return out; }
  }
  long long bx0 = 1LL << 60, bx1 = -(1LL << 60), by0 = 1LL << 60, by1 = -(1LL << 60);
  for (auto &r : s.rows) { bx0 = std::min<long long>(bx0, r.minX); bx1 = std::max<long long>(bx1, r.maxX); by0 = std::min<long long>(by0, r.minY); by1 = std::max<long long>(by1, r.maxY); }
  int n = c.nbCells();
  std::vector<int> lbx, lby, ubx, uby;
  int nLB = 0, nUB = 0, nPU = 0;
  auto zeroArea = [&](int i) { return (long long)s.cells[i].w * s.cells[i].h == 0; };
  bool resized = false;
  CallResult r = guarded([&] {
    c.placeGlobal(params, [&](PlacementStep st) {
      if (s.aux == 2 && st == PlacementStep::UpperBound && !resized) {
        // a callback may change cell sizes during global placement: every movable cell of positive area one unit wider
        resized = true;
        std::vector<int> w = c.cellWidth();
        for (int i = 0; i < n; ++i) if (!s.cells[i].fixed && w[i] > 0 && c.cellHeight()[i] > 0) w[i] += 1;
        c.setCellWidth(w);
      }
      for (int i = 0; i < n; ++i) {
        if (s.cells[i].fixed) continue;
        if (std::llabs((long long)c.cellX()[i]) >= (1LL << 28) || std::llabs((long long)c.cellY()[i]) >= (1LL << 28))
          fail("non-finite-or-overflowed-coordinate-in-callback", "step " + std::to_string((int)st) + " cell " + std::to_string(i) + " at (" + std::to_string(c.cellX()[i]) + "," + std::to_string(c.cellY()[i]) + ")");
      }
      if (st == PlacementStep::LowerBound) { lbx = c.cellX(); lby = c.cellY(); ++nLB; }
      if (st == PlacementStep::UpperBound || st == PlacementStep::PenaltyUpdate) {
        if (st == PlacementStep::UpperBound) { ubx = c.cellX(); uby = c.cellY(); ++nUB; } else ++nPU;
        for (int i = 0; i < n; ++i) {
          if (s.cells[i].fixed) continue;
          double cx = c.cellX()[i] + 0.5 * placedW(c, i), cy = c.cellY()[i] + 0.5 * placedH(c, i);
          bool inside = cx >= bx0 - 0.5 && cx <= bx1 + 0.5 && cy >= by0 - 0.5 && cy <= by1 + 0.5;
          if (!inside)
            fail(zeroArea(i) ? "upper-bound-centre-outside-rows:zero-area-movable-cell" : "upper-bound-centre-outside-rows",
                 "cell " + std::to_string(i) + " centre (" + std::to_string(cx) + "," + std::to_string(cy) + ") outside [" + std::to_string(bx0) + "," + std::to_string(bx1) + "]x[" +
                     std::to_string(by0) + "," + std::to_string(by1) + "] at upper-bound callback #" + std::to_string(nUB));
        }
      }
    });
  });
  ctx.count("callbacks_observed", nLB + nUB + nPU);
  ctx.count("penalty_update_callbacks", nPU);
  if (r.threw) {
    // the recorded finding: the run did not converge before the displacement penalty (multiplied by updateFactor at
    // every step) divided by the cutoff distance (multiplied by cutoffDistanceUpdateFactor) left the range of float
    bool diverged = r.what.rfind("Global placement diverged", 0) == 0;
    int steps = std::max(0, nLB - 1);
    double growth = std::log10(params.global.penalty.initialValue) + steps * std::log10(params.global.penalty.updateFactor) -
                    std::log10(params.global.penalty.cutoffDistance) - steps * std::log10(params.global.penalty.cutoffDistanceUpdateFactor);
    // The approximation and cutoff distances follow geometric schedules too (update factors in [0.8, 1.2]).  The property
    // keeps these distances away from the single-precision limits (it names 1e-6 as a value at which the float solver
    // returns NaN and which nobody relies on): a run whose schedule has shrunk the effective distance below 1e-6 (in the
    // parameter's unit) by the step that diverged has left the domain, and its error is not a violation.
    double approx = std::log10(params.global.continuousModel.approximationDistance) +
                    steps * std::log10(params.global.continuousModel.approximationDistanceUpdateFactor);
    double cutoff = std::log10(params.global.penalty.cutoffDistance) + steps * std::log10(params.global.penalty.cutoffDistanceUpdateFactor);
    if (diverged && (approx < -6.0 || cutoff < -6.0)) {
      ctx.count("runs_that_diverged_after_their_schedule_left_the_domain(effective_distance<1e-6)");
      return out;
    }
    bool scheduleOverflow = growth >= 25.0;
    fail(diverged && scheduleOverflow ? "global-placement-throws:diverged-penalty-overflow" : "global-placement-throws",
         r.what + " after " + std::to_string(steps) + " lower-bound steps (log10 penalty/cutoff = " + std::to_string(growth) +
             ", log10 approximation distance = " + std::to_string(approx) + ", log10 cutoff distance = " + std::to_string(cutoff) + ")");
    return out;
  }
  double b = params.global.exportBlending;
  // "up to rounding": the returned coordinate and the two exposed ones are each some rounding of a real value to an adjacent
  // integer (nearest, or directed - the property does not say which), i.e. each is off by less than one unit
  double tol = 1.0 + 1.0 * (std::fabs(1 - b) + std::fabs(b)) + 0.01;
  for (int i = 0; i < n; ++i) {
    if (s.cells[i].fixed) continue;
    if (std::llabs((long long)c.cellX()[i]) >= (1LL << 28) || std::llabs((long long)c.cellY()[i]) >= (1LL << 28))
      fail("non-finite-or-overflowed-coordinate-on-return", "cell " + std::to_string(i));
    if (nLB == 0 || nUB == 0) continue;
    double ex = (1 - b) * lbx[i] + b * ubx[i], ey = (1 - b) * lby[i] + b * uby[i];
    if (std::fabs(c.cellX()[i] - ex) > tol || std::fabs(c.cellY()[i] - ey) > tol)
      fail(zeroArea(i) ? "returned-placement-is-not-the-blend:zero-area-movable-cell" : "returned-placement-is-not-the-blend",
           "cell " + std::to_string(i) + " returned (" + std::to_string(c.cellX()[i]) + "," + std::to_string(c.cellY()[i]) + ") blend " + std::to_string(b) + " of LB (" +
               std::to_string(lbx[i]) + "," + std::to_string(lby[i]) + ") and UB (" + std::to_string(ubx[i]) + "," + std::to_string(uby[i]) + ") = (" + std::to_string(ex) + "," + std::to_string(ey) + ")");
  }
  if (nLB >= 2) ctx.nontrivial(hashSpec(s));
  if (nLB >= 2) ctx.count("runs_with_parallel_lower_bound_steps");
  return out;
}

int main(int argc, char **argv) {
  vf::Opts o = vf::parseOpts(argc, argv);
  gThorough = o.thorough() && o.pass != "san";  // the secondary sanitizer pass of the thorough tier uses the quick alphabet
  vf::Check<Spec> c;
  c.property = "C06";
  c.level = "exploration";
  c.rule =
      "global-placement alphabet: row heights {2,4} x 1..4 row ys x widths {4rh, 7rh+1} x 2 origins, 4 (7) movable cell sets (one may be two rows tall), 5 fixed-cell variants "
      "(terminal with net, obstruction inside, outside, non-obstruction), 5 net sets (degree 1..4, repeated cells, weights), 3 position patterns (origin, spread, far outside), "
      "default parameters; plus every single parameter deviation of a 68-entry menu (all net models and cost models, reopt sizes, blendings, seeds, noise, tolerances inside the "
      "moderate box) and every effort on a fixed 1/24 (thorough 1/4) of the base, some pairs in thorough; zero-area movable cells as a separate sub-domain; oracle inside every "
      "callback: centres inside the row bounding box (+0.5) at UpperBound/PenaltyUpdate, |coordinate| < 2^28 always, returned placement = blend of the last LowerBound and "
      "UpperBound exposures within the rounding of three integer exports, no exception; non-trivial = at least two lower-bound steps";
  c.bounds = gThorough ? "full alphabet, 1/4 with deviations" : "half of the base product, 1/24 with deviations";
  c.assumptions = {"instances whose every free row is removed by the side margin are outside the property's domain and are skipped (counted)",
                   "blend tolerance = 0.5 + 0.5(|1-b|+|b|) + 0.01 (three roundings to integer)"};
  c.enumerate = enumerateAll;
  c.encode = [](const Spec &s) { return encode(s); };
  c.decode = [](const std::string &s) { return decode(s); };
  c.eval = eval;
  c.instanceTimeout = 60;
  c.deadline = gThorough ? 3000 : 400;
  return vf::runCheck(o, c);
}
