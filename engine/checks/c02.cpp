// C02 — see engine/common/detailed.hpp (shared exploration of detailed placement)
#include "detailed.hpp"
#define RULE "(a) Circuit::placeDetailed on the tiny-circuit alphabet (13 layouts, 2..3(4) cells, <=1 multi-row cell, nets from a menu, every single deviation of polarity/orientation/fixed cell/parameter incl. reordering and shift windows) with the legality oracle evaluated inside every Detailed callback and on return; (b) breadth-first search over every canSwap/canInsert move of the real DetailedPlacement from each legalized initial placement, states deduplicated on (row,x,orientation) per cell, run to fixpoint; (c) breadth-first search over DetailedPlacer passes runSwaps/runInserts/runShifts/runReordering with a menu of window arguments. non-trivial = detailed placement moved a cell / graph has more than one state"

using namespace vd;
static bool gThorough = false;

int main(int argc, char **argv) {
  vf::Opts o = vf::parseOpts(argc, argv);
  gThorough = o.thorough() && o.pass != "san";  // the secondary sanitizer pass of the thorough tier uses the quick alphabet
  vf::Check<Spec> c;
  c.property = "C02";
  c.level = "model_checking";
  c.rule = RULE;
  c.bounds = gThorough ? "n<=4, pass depth 3, move graphs to fixpoint (cap 60000 states)" : "n<=3, pass depth 2, move graphs to fixpoint (cap 20000 states)";
  c.assumptions = {"DetailedPlacement/DetailedPlacer are copied to branch the search; every new state is re-derived by replaying its operation history on a fresh object and compared",
                   "rows of an instance are pairwise disjoint and of uniform height"};
  c.enumerate = [](const std::function<void(const Spec &)> &f) { enumerateDetailed(gThorough, M_C02, f); };
  c.encode = [](const Spec &s) { return encode(s); };
  c.decode = [](const std::string &s) { return decode(s); };
  c.eval = [](const Spec &s, vf::Ctx &ctx) { return evalDetailed(s, ctx, M_C02, gThorough); };
  c.primers = legalizationPrimers();
  c.instanceTimeout = 60;
  c.deadline = gThorough ? 3000 : 400;
  return vf::runCheck(o, c);
}
