// C12 — RowLegalizer: order-preserving, optimal, exact costs.
// Explicit exploration of every push/query history of the real object within
// the bounds, against a brute-force dynamic programme.
#include "place_detailed/row_legalizer.hpp"
#include "verif.hpp"

using namespace coloquinte;

struct Inst {
  int variant;  // 0 plain, 1 shifted by +OFF, 2 scaled by SC
  int b, len;
  std::vector<int> ws, ts;  // prefix of the history (small coordinates)
  int depth;                // max history length explored below this prefix
};

static const long long OFF = (1LL << 22) - 16;
static const long long SC = 1LL << 19;

static long long mapPos(int variant, long long v) { return variant == 1 ? v + OFF : variant == 2 ? v * SC : v; }
static long long mapW(int variant, long long w) { return variant == 2 ? w * SC : w; }
static long long costScale(int variant) { return variant == 2 ? SC * SC : 1; }

// reference: minimum of sum w_i |x_i - t_i| s.t. b <= x_1, x_i + w_i <= x_{i+1}, x_k + w_k <= e
static long long dpOpt(int b, int e, const std::vector<int> &w, const std::vector<int> &t) {
  const long long INF = 1LL << 60;
  int k = w.size();
  // best[p] = min cost of cells 0..i with cell i ending at or before position p
  std::vector<long long> prev(e - b + 1, 0);
  for (int i = 0; i < k; ++i) {
    std::vector<long long> cur(e - b + 1, INF);
    for (int x = b; x + w[i] <= e; ++x) {
      long long before = prev[x - b];
      if (before >= INF) continue;
      long long c = before + (long long)w[i] * std::llabs((long long)x - t[i]);
      int endIdx = x + w[i] - b;
      cur[endIdx] = std::min(cur[endIdx], c);
    }
    for (int p = 1; p <= e - b; ++p) cur[p] = std::min(cur[p], cur[p - 1]);
    prev = cur;
  }
  return prev[e - b];
}

struct Node {
  RowLegalizer clean;  // never queried
  RowLegalizer used;   // queried with every candidate at every step
  std::vector<int> ws, ts;
  long long sumCost = 0;
};

struct Explorer {
  const Inst &in;
  vf::Ctx &ctx;
  vf::Verdicts out;
  std::set<std::string> classes;
  Explorer(const Inst &i, vf::Ctx &c) : in(i), ctx(c) {}

  void fail(const std::string &cls, const Node &n, const std::string &what) {
    if (classes.insert(cls).second) {
      std::ostringstream m;
      m << what << " | variant " << in.variant << " segment [" << in.b << "," << in.b + in.len << ") history";
      for (size_t i = 0; i < n.ws.size(); ++i) m << " (w" << n.ws[i] << ",t" << n.ts[i] << ")";
      out.push_back({cls, m.str()});
    }
  }

  void checkState(const Node &n) {
    int b = in.b, e = in.b + in.len, v = in.variant;
    std::vector<int> pl = n.clean.getPlacement();
    std::vector<int> pl2 = n.used.getPlacement();
    if (pl != pl2) fail("query-changed-placement", n, "placement differs between queried and unqueried object");
    if (pl.size() != n.ws.size()) { fail("placement-size", n, "wrong number of positions"); return; }
    long long cost = 0;
    long long prevEnd = mapPos(v, b);
    bool legal = true;
    for (size_t i = 0; i < pl.size(); ++i) {
      long long x = pl[i], w = mapW(v, n.ws[i]), t = mapPos(v, n.ts[i]);
      if (x < prevEnd) legal = false;
      prevEnd = x + w;
      cost += w * std::llabs(x - t);
    }
    if (prevEnd > mapPos(v, e)) legal = false;
    if (!legal) { fail("illegal-positions", n, "positions overlap, are out of order or leave the segment"); return; }
    long long opt = dpOpt(b, e, n.ws, n.ts) * costScale(v);
    if (cost != opt) fail("placement-not-optimal", n, "placement cost " + std::to_string(cost) + " != optimum " + std::to_string(opt));
    if (n.sumCost != opt)
      fail("cost-sum-mismatch", n, "sum of reported push costs " + std::to_string(n.sumCost) + " != optimum " + std::to_string(opt));
  }

  void explore(Node &n, int depth) {
    ctx.count("states");
    checkState(n);
    if ((int)n.ws.size() >= depth) { ctx.count("traces_validated_against_impl"); return; }
    int b = in.b, e = in.b + in.len, v = in.variant;
    int used = 0;
    for (int w : n.ws) used += w;
    struct Cand { int w, t; long long predicted; };
    std::vector<Cand> cands;
    for (int w = 1; w <= 3; ++w) {
      if (used + w > in.len) continue;
      for (int t = b - 3; t <= e + 3; ++t) cands.push_back({w, t, 0});
    }
    if (cands.empty()) { ctx.count("traces_validated_against_impl"); return; }
    // queries: every candidate, twice, on the "used" object
    std::vector<int> before = n.used.getPlacement();
    for (Cand &c : cands) {
      long long c1 = n.used.getCost((int)mapW(v, c.w), (int)mapPos(v, c.t));
      long long c2 = n.used.getCost((int)mapW(v, c.w), (int)mapPos(v, c.t));
      ctx.count("transitions", 2);
      c.predicted = c1;
      if (c1 != c2) fail("query-not-idempotent", n, "two consecutive getCost differ");
    }
    if (n.used.getPlacement() != before) fail("query-changed-placement", n, "getPlacement changed by getCost");
    for (const Cand &c : cands) {
      Node m = n;
      long long r1 = m.clean.push((int)mapW(v, c.w), (int)mapPos(v, c.t));
      long long r2 = m.used.push((int)mapW(v, c.w), (int)mapPos(v, c.t));
      ctx.count("transitions", 2);
      m.ws.push_back(c.w);
      m.ts.push_back(c.t);
      if (r1 != r2) fail("query-changed-state", m, "push cost after queries " + std::to_string(r2) + " != without queries " + std::to_string(r1));
      if (c.predicted != r2) fail("predicted-cost-differs", m, "getCost " + std::to_string(c.predicted) + " != push " + std::to_string(r2));
      m.sumCost += r1;
      explore(m, depth);
    }
  }
};

int main(int argc, char **argv) {
  vf::Opts o = vf::parseOpts(argc, argv);
  bool th = o.thorough() && o.pass != "san";  // the secondary sanitizer pass of the thorough tier uses the quick alphabet
  vf::Check<Inst> c;
  c.property = "C12";
  c.level = "model_checking";
  int maxLen = th ? 8 : 7, maxDepth = th ? 5 : 4;
  c.rule =
      "every history of push(w,t) on RowLegalizer(b,e): b in {0,5,-4}, length 1.." + std::to_string(maxLen) +
      ", w in {1,2,3} fitting, t in [b-3,e+3], up to " + std::to_string(maxDepth) +
      " pushes, every candidate queried twice with getCost before each push; three coordinate variants (plain, shifted to ~2^22, "
      "scaled by 2^19, depth 3); a state is one history, non-trivial = history with >= 2 cells; oracle = brute-force DP";
  c.bounds = "len<=" + std::to_string(maxLen) + " depth<=" + std::to_string(maxDepth);
  c.assumptions = {"RowLegalizer is copyable (copy = same state); the DP reference enumerates integer positions only (data are integers)"};
  c.enumerate = [=](const std::function<void(const Inst &)> &f) {
    for (int variant = 0; variant < 3; ++variant)
      for (int b : {0, 5, -4})
        for (int len = 1; len <= maxLen; ++len)
          for (int w = 1; w <= 3 && w <= len; ++w)
            for (int t = b - 3; t <= b + len + 3; ++t) {
              Inst in{variant, b, len, {w}, {t}, variant == 2 ? std::min(3, maxDepth) : (variant == 1 ? maxDepth - 1 : maxDepth)};
              f(in);
            }
  };
  c.encode = [](const Inst &in) {
    std::ostringstream s;
    s << in.variant << " " << in.b << " " << in.len << " " << in.depth << " " << in.ws.size();
    for (size_t i = 0; i < in.ws.size(); ++i) s << " " << in.ws[i] << " " << in.ts[i];
    return s.str();
  };
  c.decode = [](const std::string &str) {
    std::istringstream s(str);
    Inst in;
    size_t k;
    s >> in.variant >> in.b >> in.len >> in.depth >> k;
    in.ws.resize(k);
    in.ts.resize(k);
    for (size_t i = 0; i < k; ++i) s >> in.ws[i] >> in.ts[i];
    return in;
  };
  c.eval = [](const Inst &in, vf::Ctx &ctx) {
    Explorer ex(in, ctx);
    int v = in.variant;
    RowLegalizer base((int)mapPos(v, in.b), (int)mapPos(v, in.b + in.len));
    Node n{base, base, {}, {}, 0};
    // replay the prefix
    for (size_t i = 0; i < in.ws.size(); ++i) {
      long long q = n.used.getCost((int)mapW(v, in.ws[i]), (int)mapPos(v, in.ts[i]));
      long long r1 = n.clean.push((int)mapW(v, in.ws[i]), (int)mapPos(v, in.ts[i]));
      long long r2 = n.used.push((int)mapW(v, in.ws[i]), (int)mapPos(v, in.ts[i]));
      n.ws.push_back(in.ws[i]);
      n.ts.push_back(in.ts[i]);
      n.sumCost += r1;
      ctx.count("transitions", 3);
      if (q != r2 || r1 != r2) ex.fail("predicted-cost-differs", n, "prefix: getCost/push disagree");
    }
    ex.explore(n, in.depth);
    if (in.depth >= 2) ctx.nontrivial(vf::fnv(std::to_string(in.variant) + ":" + std::to_string(in.b) + ":" + std::to_string(in.len) + ":" + std::to_string(in.ws[0]) + ":" + std::to_string(in.ts[0])));
    return ex.out;
  };
  c.instanceTimeout = 120;
  c.deadline = th ? 2400 : 300;
  return vf::runCheck(o, c);
}
