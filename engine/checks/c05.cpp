// C05 — see engine/common/detailed.hpp (shared exploration of detailed placement)
#include "detailed.hpp"
#define RULE "Circuit::placeDetailed on the tiny-circuit alphabet with a net menu (degree 1..3, repeated cells, pin offsets inside/outside the cell, weights) and parameter deviations: Circuit::hpwl() at the first Detailed callback (legalized placement), non-increasing over later callbacks and on return; pass graphs of DetailedPlacer: no pass may increase the hpwl of the exported circuit, value() equals the from-scratch wirelength while no cell changed orientation"

using namespace vd;
static bool gThorough = false;

int main(int argc, char **argv) {
  vf::Opts o = vf::parseOpts(argc, argv);
  gThorough = o.thorough() && o.pass != "san";  // the secondary sanitizer pass of the thorough tier uses the quick alphabet
  vf::Check<Spec> c;
  c.property = "C05";
  c.level = "model_checking";
  c.rule = RULE;
  c.bounds = gThorough ? "n<=4, pass depth 3, move graphs to fixpoint (cap 60000 states)" : "n<=3, pass depth 2, move graphs to fixpoint (cap 20000 states)";
  c.assumptions = {"DetailedPlacement/DetailedPlacer are copied to branch the search; every new state is re-derived by replaying its operation history on a fresh object and compared",
                   "rows of an instance are pairwise disjoint and of uniform height"};
  c.enumerate = [](const std::function<void(const Spec &)> &f) { enumerateDetailed(gThorough, M_C05, f); };
  c.encode = [](const Spec &s) { return encode(s); };
  c.decode = [](const std::string &s) { return decode(s); };
  c.eval = [](const Spec &s, vf::Ctx &ctx) { return evalDetailed(s, ctx, M_C05, gThorough); };
  c.primers = legalizationPrimers();
  c.instanceTimeout = 60;
  c.deadline = gThorough ? 3000 : 400;
  return vf::runCheck(o, c);
}
