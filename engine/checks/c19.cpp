// C19 — Invalid inputs are refused with an error, not undefined behaviour.
// Runs in the sanitizer flavour: an out-of-range read that happens before the
// range test fires kills the worker and is attributed to the instance.
#include "gp.hpp"

using namespace vg;

static bool gThorough = false;

struct FieldVals { int field; std::vector<double> vals; };

// values just below / at / just above each bound of the documented ranges (used only to generate the alphabet)
static std::vector<FieldVals> boundaryTable() {
  return {
      {F_orderingWidth, {-1.01, -1.0, 0.5, 2.0, 2.01}},
      {F_orderingY, {-0.21, -0.2, 0.0, 0.2, 0.21}},
      {F_orderingHeight, {-100.0, 0.0, 100.0}},
      {F_legCostModel, {0, 1, 2, 5}},
      {F_nbPasses, {-1, 0, 1}},
      {F_lsNeighbours, {-1, 0, 1}},
      {F_lsRows, {-1, 0, 1}},
      {F_shiftNbRows, {-1, 0, 1, 2}},
      {F_shiftMaxNbCells, {-1, 0, 2}},
      {F_reorderingNbRows, {-1, 0, 1, 2}},
      {F_reorderingMaxNbCells, {-1, 0, 2}},
      {F_maxNbSteps, {-1, 0, 1, 3}},
      {F_nbInitialSteps, {-1, 0, 2, 3, 4}},
      {F_nbStepsBeforeRL, {-1, 0, 1, 2}},
      {F_gapTolerance, {-0.01, 0.0, 1.0, 1.01}},
      {F_distanceTolerance, {-0.01, 0.0, 5.0}},
      {F_penaltyUpdateDistance, {-1.0, 0.0, 0.5}},
      {F_penaltyUpdateBackoff, {0.99, 1.0, 3.0}},
      {F_exportBlending, {-0.51, -0.5, 1.5, 1.51}},
      {F_noise, {-0.01, 0.0, 2.0, 2.01}},
      {F_netModel, {0, 1, 2, 3}},
      {F_approximationDistance, {1e-7, 0.1, 1000.0, 1001.0}},
      {F_approximationDistanceUF, {0.79, 0.8, 1.2, 1.21}},
      {F_maxNbCG, {-1, 0, 1, 50}},
      {F_cgTol, {1e-9, 1e-6, 1.0, 1.01}},
      {F_rlCostModel, {0, 3, 5}},
      {F_rlNbSteps, {-1, 0, 2}},
      {F_binSize, {0.99, 1.0, 25.0, 25.01}},
      {F_lineReoptSize, {0, 1, 2, 3, 64, 65}},
      {F_lineReoptOverlap, {0, 1, 2, 3}},
      {F_diagReoptSize, {0, 1, 2, 3, 64, 65}},
      {F_diagReoptOverlap, {0, 1, 2, 3}},
      {F_squareReoptSize, {0, 1, 2, 8, 9}},
      {F_squareReoptOverlap, {0, 1, 2, 3}},
      {F_unidimensionalTransport, {0, 1}},
      {F_quadraticPenalty, {-0.01, 0.0, 1.0, 1.01}},
      {F_sideMargin, {0.0, 0.9, 3.0}},
      {F_coarseningLimit, {0.0, 1.0, 100.0}},
      {F_rlTargetBlending, {-0.11, -0.1, 0.9, 0.91}},
      {F_cutoffDistance, {1e-7, 0.1, 40.0}},
      {F_cutoffDistanceUF, {0.79, 0.8, 1.2, 1.21}},
      {F_areaExponent, {0.48, 0.49, 1.01, 1.02}},
      {F_initialValue, {-0.01, 0.0, 0.03}},
      {F_updateFactor, {1.0, 1.01, 1.99, 2.0}},
      {F_penTargetBlending, {0.09, 0.1, 1.1, 1.11}},
  };
}

static Spec baseCircuit() {
  Spec s = gpRepresentatives()[0];
  return s;
}

// aux: 0 effort (aux2 = effort), 1 parameter agreement, 2 setter with wrong length (aux2 = setter*8+variant), 3 malformed nets (aux2)
static void enumerateAll(const std::function<void(const Spec &)> &f) {
  Spec b = baseCircuit();
  for (int e = -16; e <= 32; ++e) { Spec s = b; s.aux = 0; s.aux2 = e; f(s); }
  for (int e : {INT32_MIN, INT32_MIN + 1, -100000, -1000, 1000, 100000, INT32_MAX - 1, INT32_MAX}) { Spec s = b; s.aux = 0; s.aux2 = e; f(s); }
  auto T = boundaryTable();
  for (auto &fv : T)
    for (double v : fv.vals) {
      Spec s = b;
      s.aux = 1;
      s.devs = {{F_maxNbSteps, 3}, {fv.field, v}};
      f(s);
    }
  // far-out values of every field (zero, negative, huge): explored only when check() rejects them (aux2 = 1) - an accepted
  // far-out value is a legitimate, possibly very long, run and not this property's business
  for (auto &fv : T)
    for (double v : {0.0, -1.0, -1e9, 1e-3, 0.3, 1e9}) {
      Spec s = b;
      s.aux = 1;
      s.aux2 = 1;
      s.devs = {{F_maxNbSteps, 3}, {fv.field, v}};
      f(s);
    }
  // pairs
  for (size_t i = 0; i < T.size(); ++i)
    for (size_t j = i + 1; j < T.size(); ++j) {
      auto reopt = [](int f) { return f == F_lineReoptSize || f == F_lineReoptOverlap || f == F_diagReoptSize || f == F_diagReoptOverlap || f == F_squareReoptSize || f == F_squareReoptOverlap; };
      bool related = reopt(T[i].field) && reopt(T[j].field);  // window sizes and overlaps constrain each other: always paired
      if (!gThorough && !related && ((i * 7 + j) % 3 != 0)) continue;  // quick: a fixed third of the other field pairs
      for (double v : T[i].vals)
        for (double w : T[j].vals) {
          Spec s = b;
          s.aux = 1;
          s.devs = {{F_maxNbSteps, 3}, {T[i].field, v}, {T[j].field, w}};
          f(s);
        }
    }
  for (int setter = 0; setter < 11; ++setter)
    for (int variant = 0; variant < 4; ++variant) { Spec s = b; s.aux = 2; s.aux2 = setter * 8 + variant; f(s); }
  for (int k = 0; k < 19; ++k) { Spec s = b; s.aux = 3; s.aux2 = k; f(s); }
}

static CallResult runStage(Circuit &c, int stage, const ColoquinteParameters &p, const std::optional<PlacementCallback> &cb) {
  return guarded([&] {
    if (stage == 0) c.placeGlobal(p, cb);
    else if (stage == 1) c.legalize(p, cb);
    else c.placeDetailed(p, cb);
  });
}

static bool sameAll(const Snapshot &a, const Snapshot &b) { return diffStructure(a, b).empty() && samePlacement(a, b); }

static vf::Verdicts eval(const Spec &s, vf::Ctx &ctx) {
  vf::Verdicts out;
  std::set<std::string> seen;
  auto fail = [&](const std::string &cls, const std::string &msg) {
    if (seen.insert(cls).second) out.push_back({cls, msg});
  };
  static const char *stageName[3] = {"placeGlobal", "legalize", "placeDetailed"};
  if (s.aux == 0) {
    int e = s.aux2;
    bool valid = e >= 1 && e <= 9;
    auto tryCtor = [&](const char *name, const std::function<void()> &ctor) {
      CallResult r = guarded(ctor);
      if (!valid && !r.threw) fail(std::string("invalid-effort-accepted:") + name, "effort " + std::to_string(e));
      if (valid && r.threw) fail(std::string("valid-effort-refused:") + name, "effort " + std::to_string(e) + ": " + r.what);
      if (r.threw && !r.stdExc) fail("non-std-exception", name);
    };
    tryCtor("ColoquinteParameters", [&] { ColoquinteParameters p(e); p.check(); });
    tryCtor("ColoquinteParameters(seed)", [&] { ColoquinteParameters p(e, 5); p.check(); });
    // the convenience entry points taking an effort
    Circuit c = build(s);
    Snapshot before = snapshot(c);
    if (!valid) {
      for (int st = 0; st < 4; ++st) {
        CallResult r = guarded([&] {
          if (st == 0) c.placeGlobal(e);
          else if (st == 1) c.legalize(e);
          else if (st == 2) c.placeDetailed(e);
          else c.place(e);
        });
        if (!r.threw) fail("invalid-effort-accepted:entry-point", "effort " + std::to_string(e) + " stage " + std::to_string(st));
        if (!sameAll(before, snapshot(c))) fail("invalid-effort-modified-circuit", "effort " + std::to_string(e));
      }
    }
    ctx.nontrivial(vf::fnv("effort" + std::to_string(e)));
    return out;
  }
  if (s.aux == 1) {
    ColoquinteParameters p = makeParams(s);
    CallResult chk = guarded([&] { p.check(); });
    if (chk.threw && !chk.stdExc) fail("check-throws-non-std", describe(s));
    if (s.aux2 == 1 && !chk.threw) { ctx.count("far_out_values_accepted_by_check_not_run"); return out; }
    for (int st = 0; st < 3; ++st) {
      Circuit c = build(s);
      Snapshot before = snapshot(c);
      int calls = 0;
      CallResult r = runStage(c, st, p, PlacementCallback([&](PlacementStep) { ++calls; }));
      if (chk.threw) {
        if (!r.threw) fail(std::string("rejected-parameters-accepted-by:") + stageName[st], describe(s));
        if (calls > 0) fail(std::string("callback-invoked-with-rejected-parameters:") + stageName[st], describe(s));
        if (!sameAll(before, snapshot(c))) fail(std::string("rejected-parameters-modified-circuit:") + stageName[st], describe(s));
      } else {
        if (r.threw && !r.stdExc) fail("non-std-exception", describe(s));
        if (r.threw) ctx.count("accepted_parameter_runs_that_threw");
      }
    }
    ctx.count(chk.threw ? "parameter_sets_rejected" : "parameter_sets_accepted");
    ctx.nontrivial(hashSpec(s));
    return out;
  }
  if (s.aux == 2) {
    int setter = s.aux2 / 8, variant = s.aux2 % 8;
    Circuit c = build(s);
    int n = c.nbCells();
    static const int lens[4] = {0, -1, 1, 0};  // 0 -> 0, n-1, n+1, 2n
    int len = variant == 0 ? 0 : (variant == 3 ? 2 * n : n + lens[variant]);
    Snapshot before = snapshot(c);
    static const char *names[11] = {"setCellX", "setCellY", "setCellIsFixed", "setCellIsObstruction", "setCellOrientation", "setCellRowPolarity",
                                    "setCellWidth", "setCellHeight", "setSolution", "setNetWeights", "expandCellsByFactor"};
    CallResult r = guarded([&] {
      switch (setter) {
        case 0: c.setCellX(std::vector<int>(len, 1)); break;
        case 1: c.setCellY(std::vector<int>(len, 1)); break;
        case 2: c.setCellIsFixed(std::vector<bool>(len, true)); break;
        case 3: c.setCellIsObstruction(std::vector<bool>(len, false)); break;
        case 4: c.setCellOrientation(std::vector<CellOrientation>(len, CellOrientation::S)); break;
        case 5: c.setCellRowPolarity(std::vector<CellRowPolarity>(len, CellRowPolarity::SAME)); break;
        case 6: c.setCellWidth(std::vector<int>(len, 1)); break;
        case 7: c.setCellHeight(std::vector<int>(len, 1)); break;
        case 8: c.setSolution(PlacementSolution(len, CellPlacement(1, 1, CellOrientation::S))); break;
        case 9: c.setNetWeights(std::vector<float>(variant == 0 ? 0 : c.nbNets() + (variant == 1 ? -1 : variant == 2 ? 1 : c.nbNets()), 2.0f)); break;
        case 10: c.expandCellsByFactor(std::vector<float>(len, 1.5f), 1.0, 0.0); break;
      }
    });
    if (!r.threw) fail(std::string("wrong-length-accepted:") + names[setter], "length " + std::to_string(len) + " for " + std::to_string(n) + " cells");
    if (r.threw && !r.stdExc) fail("non-std-exception", names[setter]);
    if (!sameAll(before, snapshot(c))) fail(std::string("wrong-length-modified-circuit:") + names[setter], "length " + std::to_string(len));
    CallResult cr = guarded([&] { c.check(); });
    if (cr.threw) fail("check-fails-after-refused-setter", names[setter]);
    ctx.nontrivial(vf::fnv("setter" + std::to_string(s.aux2)));
    return out;
  }
  // malformed nets
  {
    Spec base = s;
    if (s.aux2 >= 14) {  // the same on a circuit without any cell / with a single cell
      base.cells.resize(s.aux2 >= 17 ? 1 : 0);
      base.nets.clear();
    }
    Circuit c = build(base);
    int n = c.nbCells();
    Snapshot before = snapshot(c);
    int k = s.aux2;
    std::string what;
    CallResult r = guarded([&] {
      switch (k) {
        case 0: what = "addNet lengths 2/1/2"; c.addNet({0, 1}, {0}, {0, 0}); break;
        case 1: what = "addNet lengths 2/2/3"; c.addNet({0, 1}, {0, 0}, {0, 0, 0}); break;
        case 2: what = "addNet lengths 0/1/1"; c.addNet({}, {0}, {0}); break;
        case 3: what = "addNet pin on cell -1"; c.addNet({0, -1}, {0, 0}, {0, 0}); break;
        case 4: what = "addNet pin on cell n"; c.addNet({n, 0}, {0, 0}, {0, 0}); break;
        case 5: what = "addNet pin on cell INT_MAX"; c.addNet({0, INT32_MAX}, {0, 0}, {0, 0}); break;
        case 6: what = "addNet single pin on cell n+5"; c.addNet({n + 5}, {0}, {0}); break;
        case 7: what = "setNets pin on cell n"; c.setNets({0, 2}, {0, n}, {0, 0}, {0, 0}); break;
        case 8: what = "setNets pin on cell -1"; c.setNets({0, 2}, {-1, 0}, {0, 0}, {0, 0}); break;
        case 9: what = "setNets limits do not match pins"; c.setNets({0, 3}, {0, 1}, {0, 0}, {0, 0}); break;
        case 10: what = "setNets offsets shorter than pins"; c.setNets({0, 2}, {0, 1}, {0}, {0, 0}); break;
        case 11: what = "setNets limits not starting at 0"; c.setNets({1, 2}, {0, 1}, {0, 0}, {0, 0}); break;
        case 12: what = "setNets decreasing limits"; c.setNets({0, 2, 1}, {0, 1}, {0, 0}, {0, 0}); break;
        case 13: what = "setNets wrong number of weights"; c.setNets({0, 2}, {0, 1}, {0, 0}, {0, 0}, {1.0f, 2.0f, 3.0f}); break;
        case 14: what = "empty circuit: addNet pin on cell 0"; c.addNet({0}, {0}, {0}); break;
        case 15: what = "empty circuit: addNet pins on cells 5 and 7"; c.addNet({5, 7}, {0, 0}, {0, 0}); break;
        case 16: what = "empty circuit: setNets pins on cells 0 and 1"; c.setNets({0, 2}, {0, 1}, {0, 0}, {0, 0}); break;
        case 17: what = "one-cell circuit: addNet pin on cell 1"; c.addNet({0, 1}, {0, 0}, {0, 0}); break;
        case 18: what = "one-cell circuit: setNets pin on cell 1"; c.setNets({0, 2}, {1, 0}, {0, 0}, {0, 0}); break;
      }
    });
    if (r.threw && !r.stdExc) fail("non-std-exception", what);
    if (r.threw) {
      if (!sameAll(before, snapshot(c))) fail("refused-net-modified-circuit", what);
    } else {
      // accepted by the setter: at the latest the first placement call must refuse it before any work
      for (int st = 0; st < 3; ++st) {
        Circuit d = c;
        Snapshot b2 = snapshot(d);
        int calls = 0;
        ColoquinteParameters p(3, 0);
        p.global.maxNbSteps = 3;
        CallResult pr = runStage(d, st, p, PlacementCallback([&](PlacementStep) { ++calls; }));
        if (!pr.threw) fail("malformed-net-accepted", what + " then " + stageName[st]);
        else if (calls > 0 || !sameAll(b2, snapshot(d))) fail("malformed-net-refused-after-work", what + " then " + stageName[st]);
      }
    }
    ctx.nontrivial(vf::fnv("net" + std::to_string(k)));
    return out;
  }
}

int main(int argc, char **argv) {
  vf::Opts o = vf::parseOpts(argc, argv);
  gThorough = o.thorough();
  vf::Check<Spec> c;
  c.property = "C19";
  c.level = "exploration";
  c.rule =
      "every effort in -16..32 and 8 extreme 32-bit values through ColoquinteParameters(effort[,seed]) and the effort entry points; every parameter field driven just below / at / "
      "just above each bound of its documented range, one at a time and in pairs (quick: a fixed third of the field pairs), plus the far-out values {0, -1, -1e9, 1e-3, 0.3, 1e9} of every field when check() rejects them: agreement test between check() and "
      "placeGlobal/legalize/placeDetailed (rejected => all three throw, callback never invoked, circuit unchanged; accepted => sanitizer-clean); every Circuit setter with lengths "
      "{0, n-1, n+1, 2n}; addNet/setNets with inconsistent lengths, pin cells -1, n, INT_MAX, malformed limits, also on circuits with zero and one cell; all under ASan+UBSan+libstdc++ assertions";
  c.bounds = gThorough ? "all field pairs" : "one third of field pairs";
  c.assumptions = {"documented bounds are only used to generate values; the oracle is agreement between check() and the entry points"};
  c.enumerate = enumerateAll;
  c.encode = [](const Spec &s) { return encode(s); };
  c.decode = [](const std::string &s) { return decode(s); };
  c.eval = eval;
  c.instanceTimeout = 60;
  c.deadline = gThorough ? 3000 : 400;
  return vf::runCheck(o, c);
}
