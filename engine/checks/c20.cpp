// C20 — File export and Python layer are faithful to the circuit.
// C++ Circuit -> Circuit::exportIspd -> files -> pycoloquinte/coloquinte.py (real reader, on a
// pure-Python stand-in for the compiled module) -> dump -> fresh C++ Circuit, field by field.
#include <dirent.h>
#include <sys/stat.h>
#include <sys/types.h>

#include "tca.hpp"

using namespace vt;

static bool gThorough = false;
static std::string gRunDir = ".";
static const int BATCH = 300;

struct Inst {
  int kind;  // 0 batch, 1 single circuit, 2 bindings
  int batch;
  Spec single;
};

static std::vector<Spec> allCircuits() {
  std::vector<Spec> v;
  std::vector<std::pair<int, int>> sizes = {{1, 1}, {2, 3}, {3, 2}};
  if (gThorough) { sizes.push_back({5, 5}); sizes.push_back({4, 1}); }
  std::vector<CellSpec> partners;
  {
    CellSpec b; b.w = 2; b.h = 2; b.x = 9; b.y = 4; b.orient = oN; partners.push_back(b);
    b.w = 3; b.h = 1; b.orient = oFE; b.fixed = true; b.x = -7; b.y = 0; partners.push_back(b);
    b.w = 0; b.h = 0; b.orient = oN; b.fixed = true; b.x = 100; b.y = 50; partners.push_back(b);
    b.w = 1; b.h = 3; b.orient = oS; b.fixed = false; b.x = 0; b.y = 0; partners.push_back(b);
  }
  for (auto &wh : sizes)
    for (int o = 0; o < 8; ++o)
      for (int fixed = 0; fixed < 2; ++fixed)
        for (size_t pi = 0; pi < partners.size(); ++pi)
          for (int netVariant = 0; netVariant < 4; ++netVariant)
            for (int rowVariant = 0; rowVariant < (gThorough ? 16 : 8); ++rowVariant) {
              if (!gThorough && ((o + fixed + (int)pi + netVariant + rowVariant) % 2)) continue;
              Spec s;
              CellSpec a; a.w = wh.first; a.h = wh.second; a.orient = o; a.fixed = fixed; a.x = 3 + rowVariant; a.y = -2 + 2 * (int)pi;
              s.cells = {a, partners[pi]};
              if (netVariant >= 2) { CellSpec c3; c3.w = 1; c3.h = 1; c3.x = -3; c3.y = 8; c3.orient = (o + 3) % 8; s.cells.push_back(c3); }
              int n = s.cells.size();
              auto net = [](std::vector<std::array<int, 3>> pins, float w = 1.0f) { NetSpec nt; nt.pins = pins; nt.weight = w; return nt; };
              switch (netVariant) {
                case 0: break;
                case 1: s.nets = {net({{0, 0, 0}, {1, 1, 1}}), net({{0, a.w, a.h}})}; break;
                case 2: s.nets = {net({{0, -1, a.h + 1}, {1, 0, 0}, {2, 1, 0}}), net({{2, 0, 1}, {0, a.w - 1, 0}}), net({{1, 0, 0}})}; break;
                default: s.nets = {net({{0, 1, 0}, {0, 0, 1}, {n - 1, 0, 0}}, 2.0f), net({{1, 2, -1}, {0, a.w + 2, a.h}})}; break;
              }
              int ro = rowVariant % 8;
              s.rows = {mkRow(0, 12, 0, 2, ro), mkRow(0, 12, 1, 2, (ro + 5) % 8)};
              if (rowVariant >= 8) s.rows = {mkRow(-5, 7, 0, 3, ro, 0, -9), mkRow(1, 4, 2, 3, oFS, 0, -9), mkRow(6, 30, 2, 3, oS, 0, -9)};
              v.push_back(s);
            }
  // sizes beyond toy range (counts above 256 matter to the Python side: small integers are cached objects there): 150 cells in a
  // chain of 149 two-pin nets; 12 cells with 300 nets; 300 cells without nets; 40 rows
  {
    Spec a;
    for (int r = 0; r < 40; ++r) a.rows.push_back(mkRow(0, 60, r, 2, r % 2 ? oFS : oN));
    for (int i = 0; i < 150; ++i) { CellSpec c; c.w = 1 + i % 3; c.h = 2; c.x = (i * 7) % 57; c.y = 2 * (i % 40); c.orient = i % 8; if (c.orient == 2 || c.orient == 3 || c.orient == 6 || c.orient == 7) std::swap(c.w, c.h); c.fixed = i % 11 == 0; a.cells.push_back(c); }
    for (int i = 0; i + 1 < 150; ++i) { NetSpec n; n.pins = {{i, i % 2, 0}, {i + 1, 0, i % 2}}; n.weight = 1.0f; a.nets.push_back(n); }
    v.push_back(a);
    Spec b;
    b.rows = {mkRow(0, 30, 0, 2, oN), mkRow(0, 30, 1, 2, oFS)};
    for (int i = 0; i < 12; ++i) { CellSpec c; c.w = 2; c.h = 2; c.x = 2 * i; c.y = 2 * (i % 2); b.cells.push_back(c); }
    for (int k = 0; k < 300; ++k) { NetSpec n; n.pins = {{k % 12, k % 3, 0}, {(k * 5 + 1) % 12, 0, k % 2}}; if (k % 7 == 0) n.pins.push_back({(k + 3) % 12, 1, 1}); b.nets.push_back(n); }
    v.push_back(b);
    Spec c3;
    c3.rows = {mkRow(0, 400, 0, 1, oN)};
    for (int i = 0; i < 300; ++i) { CellSpec c; c.w = 1; c.h = 1; c.x = i; c.y = 0; c.fixed = i >= 280; c3.cells.push_back(c); }
    v.push_back(c3);
  }
  // magnitudes the text format must carry: every 5th circuit also translated to large positive / negative coordinates
  // and scaled by (9973, 4999) - sizes stay below 10^5 and pin offsets from the cell centre within six significant
  // digits, as the property's domain demands
  size_t n0 = v.size();
  for (size_t i = 0; i < n0; i += 5) {
    v.push_back(translated(v[i], 40000001, -20000003));
    v.push_back(scaled(v[i], 9973, 4999));
  }
  return v;
}

static std::string encI(const Inst &i) {
  if (i.kind == 0) return "B " + std::to_string(i.batch);
  if (i.kind == 2) return "X";
  return "S " + encode(i.single);
}
static Inst decI(const std::string &s) {
  Inst i;
  i.batch = 0;
  if (s[0] == 'B') { i.kind = 0; i.batch = atoi(s.c_str() + 2); }
  else if (s[0] == 'X') i.kind = 2;
  else { i.kind = 1; i.single = decode(s.substr(2)); }
  return i;
}

static void rmTree(const std::string &p) {
  DIR *d = opendir(p.c_str());
  if (d) {
    while (dirent *e = readdir(d)) {
      std::string n = e->d_name;
      if (n == "." || n == "..") continue;
      std::string q = p + "/" + n;
      struct stat st;
      if (lstat(q.c_str(), &st) == 0 && S_ISDIR(st.st_mode)) rmTree(q);
      else unlink(q.c_str());
    }
    closedir(d);
  }
  rmdir(p.c_str());
}

static std::string pythonExe() {
  const char *e = getenv("VERIF_PYTHON");
  if (e) return e;
  return access("/usr/bin/python3", X_OK) == 0 ? "/usr/bin/python3" : "python3";
}

static void compareOne(const Spec &s, const std::string &dir, vf::Verdicts &out, vf::Ctx &ctx) {
  std::set<std::string> seen;
  auto fail = [&](const std::string &cls, const std::string &msg) {
    if (seen.insert(cls).second) out.push_back({cls, msg + " | " + describe(s), "S " + encode(s)});
  };
  std::ifstream in(dir + "/readback.txt");
  if (!in) { fail("no-readback", "python produced nothing"); return; }
  std::string tag;
  in >> tag;
  if (tag == "ERROR") { std::string rest; std::getline(in, rest); fail("reader-error", rest); return; }
  size_t n;
  in >> n;
  Circuit orig = build(s);
  if (n != s.cells.size()) { fail("cell-count-differs", std::to_string(n)); return; }
  Spec r;
  r.cells.resize(n);
  for (size_t i = 0; i < n; ++i) {
    int f, ob;
    in >> r.cells[i].w >> r.cells[i].h >> f >> ob >> r.cells[i].x >> r.cells[i].y >> r.cells[i].orient;
    r.cells[i].fixed = f;
    r.cells[i].obstruction = ob;
    const CellSpec &e = s.cells[i];
    if (r.cells[i].w != e.w || r.cells[i].h != e.h) fail("cell-size-differs", "cell " + std::to_string(i) + ": " + std::to_string(r.cells[i].w) + "x" + std::to_string(r.cells[i].h));
    if (r.cells[i].fixed != e.fixed) fail("fixed-flag-differs", "cell " + std::to_string(i));
    if (r.cells[i].x != e.x || r.cells[i].y != e.y) fail("position-differs", "cell " + std::to_string(i));
    if (r.cells[i].orient != e.orient) fail("orientation-differs", "cell " + std::to_string(i) + ": " + std::to_string(r.cells[i].orient));
  }
  size_t m;
  in >> tag >> m;
  // the circuit drops empty nets; all nets here are non-empty
  if (m != s.nets.size()) { fail("net-count-differs", std::to_string(m)); return; }
  r.nets.resize(m);
  for (size_t k = 0; k < m; ++k) {
    size_t np;
    in >> np;
    r.nets[k].pins.resize(np);
    for (auto &p : r.nets[k].pins) in >> p[0] >> p[1] >> p[2];
    if (np != s.nets[k].pins.size()) { fail("net-degree-differs", "net " + std::to_string(k)); continue; }
    for (size_t p = 0; p < np; ++p) {
      if (r.nets[k].pins[p][0] != s.nets[k].pins[p][0]) fail("net-connectivity-differs", "net " + std::to_string(k) + " pin " + std::to_string(p));
      if (r.nets[k].pins[p][1] != s.nets[k].pins[p][1] || r.nets[k].pins[p][2] != s.nets[k].pins[p][2])
        fail("pin-offset-differs", "net " + std::to_string(k) + " pin " + std::to_string(p) + ": read (" + std::to_string(r.nets[k].pins[p][1]) + "," +
                                       std::to_string(r.nets[k].pins[p][2]) + ") raw offset is (" + std::to_string(s.nets[k].pins[p][1]) + "," + std::to_string(s.nets[k].pins[p][2]) + ")");
    }
  }
  size_t nr;
  in >> tag >> nr;
  if (nr != s.rows.size()) { fail("row-count-differs", std::to_string(nr)); return; }
  r.rows.resize(nr);
  for (size_t k = 0; k < nr; ++k) {
    in >> r.rows[k].minX >> r.rows[k].maxX >> r.rows[k].minY >> r.rows[k].maxY >> r.rows[k].orient;
    const RowSpec &e = s.rows[k];
    if (r.rows[k].minX != e.minX || r.rows[k].maxX != e.maxX || r.rows[k].minY != e.minY || r.rows[k].maxY != e.maxY) fail("row-geometry-differs", "row " + std::to_string(k));
    if (r.rows[k].orient != e.orient) fail("row-orientation-differs", "row " + std::to_string(k) + ": read " + std::to_string(r.rows[k].orient) + " expected " + std::to_string(e.orient));
  }
  for (const char *sec : {"PL2", "PL3"}) {
    size_t n2;
    in >> tag >> n2;
    if (tag != sec || n2 != n) { fail(std::string("python-placement-writer-") + sec + "-missing", tag); return; }
    for (size_t i = 0; i < n; ++i) {
      int x, y, o;
      in >> x >> y >> o;
      if (x != s.cells[i].x || y != s.cells[i].y || o != s.cells[i].orient) fail(std::string("python-placement-roundtrip-differs-") + sec, "cell " + std::to_string(i));
    }
  }
  if (!seen.empty()) return;
  // same wirelength from a fresh C++ circuit built from what Python read
  for (auto &c : r.cells) c.polarity = 0;
  Circuit back = build(r);
  if (back.hpwl() != orig.hpwl()) fail("hpwl-differs", std::to_string(back.hpwl()) + " vs " + std::to_string(orig.hpwl()));
  ctx.count("circuits_round_tripped");
}

static vf::Verdicts eval(const Inst &in, vf::Ctx &ctx) {
  vf::Verdicts out;
  std::string dir = gRunDir + "/c20-" + std::to_string(getpid()) + "-" + std::to_string(in.batch) + (in.kind == 1 ? "s" : "");
  rmTree(dir);
  mkdir(dir.c_str(), 0755);
  std::string script = std::string(VERIF_ROOT) + "/engine/pystub/roundtrip.py";
  if (in.kind == 2) {
    std::string outF = dir + "/bindings.txt";
    std::string cmd = pythonExe() + " " + script + " " + VERIF_REPO + " --bindings " + outF + " 2> " + dir + "/py.err";
    int rc = system(cmd.c_str());
    std::ifstream f(outF);
    std::string tag;
    long n = 0;
    if (rc != 0 || !(f >> tag >> n)) { out.push_back({"bindings-script-failed", vf::readFile(dir + "/py.err").substr(0, 500)}); rmTree(dir); return out; }
    ctx.count("bindings_checked", n);
    ctx.count("evaluations", std::max(0L, n - 1));
    std::string line;
    std::getline(f, line);
    while (std::getline(f, line))
      if (!line.empty()) out.push_back({"binding:" + line.substr(0, 140), line});
    ctx.nontrivial(vf::fnv("bindings"));
    rmTree(dir);
    return out;
  }
  std::vector<Spec> cases;
  if (in.kind == 1) cases.push_back(in.single);
  else {
    auto all = allCircuits();
    for (size_t i = (size_t)in.batch * BATCH; i < all.size() && i < (size_t)(in.batch + 1) * BATCH; ++i) cases.push_back(all[i]);
  }
  char cwd[4096];
  if (!getcwd(cwd, sizeof cwd)) cwd[0] = 0;
  for (size_t i = 0; i < cases.size(); ++i) {
    char name[64];
    snprintf(name, sizeof name, "/case_%05zu", i);
    std::string d = dir + name;
    mkdir(d.c_str(), 0755);
    Circuit c = build(cases[i]);
    if (chdir(d.c_str()) != 0) { out.push_back({"HARNESS-chdir", d}); continue; }
    CallResult r = guarded([&] { c.exportIspd("c"); });  // bare name: the .aux file records names as given
    if (chdir(cwd) != 0) {}
    if (r.threw) out.push_back({"export-throws", r.what, "S " + encode(cases[i])});
  }
  std::string cmd = pythonExe() + " " + script + " " + VERIF_REPO + " " + dir + " 2> " + dir + "/py.err";
  int rc = system(cmd.c_str());
  if (rc != 0) {
    out.push_back({"roundtrip-script-failed", vf::readFile(dir + "/py.err").substr(0, 800)});
    rmTree(dir);
    return out;
  }
  for (size_t i = 0; i < cases.size(); ++i) {
    char name[64];
    snprintf(name, sizeof name, "/case_%05zu", i);
    compareOne(cases[i], dir + name, out, ctx);
    ctx.nontrivial(hashSpec(cases[i]));
  }
  ctx.count("evaluations", (long long)cases.size() - 1);
  rmTree(dir);
  // keep one witness per class in this batch
  vf::Verdicts kept;
  std::set<std::string> cls;
  for (auto &v : out) if (cls.insert(v.cls).second) kept.push_back(v);
  for (auto &v : out) if (!cls.count(v.cls)) kept.push_back(v);
  ctx.count("violating_circuits_in_batches", (long long)out.size());
  return kept;
}

int main(int argc, char **argv) {
  vf::Opts o = vf::parseOpts(argc, argv);
  gThorough = o.thorough();
  gRunDir = o.rundir;
  vf::Check<Inst> c;
  c.property = "C20";
  c.level = "exploration";
  c.rule =
      "circuits: cell A with raw sizes {1x1, 2x3, 3x2}(+{5x5,4x1}) x 8 orientations x fixed/movable against 4 partner cells (movable, fixed turned, zero-size terminal, S) and an "
      "optional third cell, 4 net sets (degree 1..3, repeated cells, offsets inside and outside the cell, weights), rows with every one of the 8 orientations and two geometries "
      "(quick: a fixed half of the product): written by the real Circuit::exportIspd, read by the real pycoloquinte/coloquinte.py reader on a pure-Python stand-in for the compiled "
      "module, compared field by field (sizes, fixed flags, positions, orientations, connectivity, raw pin offsets, row geometry and orientation) and through hpwl() of a fresh C++ "
      "circuit; the Python write_placement/_read_place/load_placement loop on the same circuits; plus every .value / def_readwrite / def_property(_readonly) entry of module.cpp: "
      "Python name = (snake case of) the C++ entity it is bound to, every enumerator bound";
  c.bounds = "<=3 cells, sizes < 10^5";
  c.assumptions = {"pybind11 is not installed: the compiled module is replaced by engine/pystub/coloquinte_pybind.py (attribute-carrying classes), the reader itself is the real one",
                   "export uses a bare file name from inside the output directory (the .aux file records names as passed)"};
  c.enumerate = [](const std::function<void(const Inst &)> &f) {
    size_t n = allCircuits().size();
    for (size_t b = 0; b * BATCH < n; ++b) { Inst i; i.kind = 0; i.batch = (int)b; f(i); }
    Inst x; x.kind = 2; x.batch = 0; f(x);
  };
  c.encode = encI;
  c.decode = decI;
  c.eval = eval;
  c.instanceTimeout = 300;
  c.deadline = gThorough ? 3000 : 400;
  return vf::runCheck(o, c);
}
