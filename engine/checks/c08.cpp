// C08 — Placement is deterministic and independent of thread scheduling.
// pass "sched": preemption-bounded enumeration of the interleavings of the two asynchronous
//               solves of every lower-bound step, under a cooperative scheduler hooked at
//               COLOQUINTE_VERIF points (stateless exploration of the implementation);
// pass "tsan" : the same harness bodies free-running under ThreadSanitizer (the scheduler's
//               hand-offs would hide races from the detector);
// pass "hist" : every order of independent runs in one process, with/without callback, on
//               copies, compared with the same run alone in a fresh process.
#include <chrono>
#include <condition_variable>
#include <mutex>

#include "gp.hpp"

using namespace vg;

static bool gThorough = false;
static std::string gPass = "sched";

// ------------------------------------------------------------------ scheduler
namespace sched {
struct DPoint { std::vector<int> enabled; int running; int chosen; };
static std::mutex mu;
static std::condition_variable cv;
static const void *objs[2];
static bool live[2], parked[2], granted[2];
static int atPoint[2];
static int running = -1;
static std::vector<int> prefix;
static std::vector<DPoint> trace;
static bool on = false;
static std::string err;
static int lbStep = 0;
static bool sequentialSeen = false;
static std::vector<std::pair<int, std::vector<uint32_t>>> results;  // key = step*2+axis

static void decide() {  // mu held; every live worker is parked
  std::vector<int> en;
  for (int i = 0; i < 2; ++i) if (live[i] && parked[i]) en.push_back(i);
  if (en.empty()) return;
  // canonical order: the running thread first if it is still enabled, then ascending ids
  if (running >= 0 && live[running] && parked[running] && en[0] != running) std::swap(en[0], en[1]);
  size_t k = trace.size();
  int pick = 0;
  if (k < prefix.size()) {
    pick = prefix[k];
    if (pick >= (int)en.size()) { err = "schedule prefix out of range at point " + std::to_string(k); pick = 0; }
  }
  DPoint p;
  p.enabled = en;
  p.running = (running >= 0 && live[running] && parked[running]) ? running : -1;
  p.chosen = pick;
  trace.push_back(p);
  int id = en[pick];
  running = id;
  parked[id] = false;
  granted[id] = true;
  if (atPoint[id] == 2) {  // released from its last point: the worker is done as far as scheduling goes
    live[id] = false;
    bool all = true;
    for (int i = 0; i < 2; ++i) if (live[i] && !parked[i]) all = false;
    if (all) decide();
  }
  cv.notify_all();
}

static void point(const char *where, const void *obj) {
  if (!on) return;
  std::unique_lock<std::mutex> lk(mu);
  if (!strcmp(where, "runLB:x")) { objs[0] = obj; live[0] = true; parked[0] = false; granted[0] = false; return; }
  if (!strcmp(where, "runLB:y")) { objs[1] = obj; live[1] = true; parked[1] = false; granted[1] = false; return; }
  if (!strcmp(where, "solve:result")) {
    // called by the running worker between solve:built and solve:end
    const std::vector<float> *v = (const std::vector<float> *)obj;
    std::vector<uint32_t> bits(v->size());
    if (!v->empty()) memcpy(bits.data(), v->data(), v->size() * 4);
    results.push_back({lbStep * 2 + (running >= 0 ? running : 0), bits});
    return;
  }
  if (!strcmp(where, "runLB:joined")) {
    if (live[0] || live[1]) err = "joined with a live worker";
    running = -1;
    ++lbStep;
    return;
  }
  int id = obj == objs[0] ? 0 : (obj == objs[1] ? 1 : -1);
  if (id < 0) { err = "hook from an unknown object"; return; }
  atPoint[id] = !strcmp(where, "solve:begin") ? 0 : (!strcmp(where, "solve:built") ? 1 : 2);
  parked[id] = true;
  granted[id] = false;
  bool all = true;
  for (int i = 0; i < 2; ++i) if (live[i] && !parked[i]) all = false;
  if (all) decide();
  // If the other live worker never reaches a hooked point while this one waits, the two solves are not concurrent in this
  // execution (an implementation may legitimately run them one after the other on the calling thread): there is nothing
  // to schedule, the scheduler switches itself off for the rest of the run and the caller is told.
  auto deadline = std::chrono::steady_clock::now() + std::chrono::seconds(5);
  while (!granted[id]) {
    if (cv.wait_until(lk, deadline) == std::cv_status::timeout && !granted[id]) {
      sequentialSeen = true;
      on = false;
      for (int i = 0; i < 2; ++i) { granted[i] = true; parked[i] = false; live[i] = false; }
      cv.notify_all();
      return;
    }
  }
}
}  // namespace sched

#if !defined(__SANITIZE_THREAD__)
extern "C" void coloquinte_verif_point(const char *where, const void *obj) { sched::point(where, obj); }
#else
extern "C" void coloquinte_verif_point(const char *, const void *) {}
#endif

struct Obs {
  std::vector<uint32_t> v;
  bool operator==(const Obs &o) const { return v == o.v; }
  bool operator<(const Obs &o) const { return v < o.v; }
};

static Spec schedSpec(const Spec &base, int steps, int model) {
  Spec s = base;
  s.devs = {{F_maxNbSteps, (double)steps}, {F_gapTolerance, 0.0}, {F_distanceTolerance, 0.0}, {F_netModel, (double)model}};
  s.seed = 7;
  return s;
}

static Obs runOnce(const Spec &s, const std::vector<int> &pre, int &lbSteps, bool &xyDiffer) {
  using namespace sched;
  prefix = pre;
  trace.clear();
  results.clear();
  running = -1;
  live[0] = live[1] = false;
  lbStep = 0;
  err.clear();
  ColoquinteParameters p = makeParams(s);
  Circuit c = build(s);
  Obs o;
  on = true;
  CallResult r = guarded([&] {
    c.placeGlobal(p, [&](PlacementStep st) {
      o.v.push_back(0xC0000000u | (uint32_t)st);
      for (int x : c.cellX()) o.v.push_back((uint32_t)x);
      for (int y : c.cellY()) o.v.push_back((uint32_t)y);
    });
  });
  on = false;
  if (r.threw) o.v.push_back(0xDEAD0000u);
  for (int x : c.cellX()) o.v.push_back((uint32_t)x);
  for (int y : c.cellY()) o.v.push_back((uint32_t)y);
  for (auto ori : c.cellOrientation()) o.v.push_back((uint32_t)ori);
  // raw solver results keyed by (step, axis), independent of completion order
  std::vector<std::pair<int, std::vector<uint32_t>>> rs = results;
  std::sort(rs.begin(), rs.end(), [](const auto &a, const auto &b) { return a.first < b.first; });
  xyDiffer = false;
  for (size_t i = 0; i + 1 < rs.size(); i += 2)
    if (rs[i].first / 2 == rs[i + 1].first / 2 && rs[i].second != rs[i + 1].second) xyDiffer = true;
  for (auto &kv : rs) {
    o.v.push_back(0xA0000000u | (uint32_t)kv.first);
    o.v.insert(o.v.end(), kv.second.begin(), kv.second.end());
  }
  lbSteps = lbStep;
  return o;
}

static std::string prefixStr(const std::vector<int> &p) { return vf::joinInts(p, '.'); }

// aux: circuit index; aux2: steps + 16*model + 64*bound (sched)
static vf::Verdicts evalSched(const Spec &inst, vf::Ctx &ctx) {
  vf::Verdicts out;
  std::set<std::string> seen;
  auto fail = [&](const std::string &cls, const std::string &msg) {
    if (seen.insert(cls).second) out.push_back({cls, msg + " | " + describe(inst)});
  };
  int steps = inst.aux2 % 16, model = (inst.aux2 / 16) % 4, bound = inst.aux2 / 64;
  Spec s = schedSpec(inst, steps, model);
  int lbSteps = 0;
  bool xyDiffer = false;
  sched::sequentialSeen = false;
  Obs ref = runOnce(s, {}, lbSteps, xyDiffer);
  std::vector<sched::DPoint> refTrace = sched::trace;
  if (sched::sequentialSeen) {
    // no interleaving exists in this execution; repeated runs must still agree
    int l2; bool d2;
    Obs again = runOnce(s, {}, l2, d2);
    if (!(again == ref)) fail("default-schedule-not-reproducible", "two sequential runs differ");
    ctx.count("instances_where_the_two_solves_were_not_concurrent");
    ctx.count("states", 1);
    ctx.count("transitions", 1);
    ctx.count("traces_validated_against_impl", 1);
    return out;
  }
  if (!sched::err.empty()) fail("HARNESS-scheduler-error", sched::err);
  // non-vacuity guards
  if (lbSteps < 1) fail("HARNESS-no-lower-bound-step", "the run started no thread");
  if (!xyDiffer) fail("HARNESS-x-and-y-systems-coincide", "shared-state bugs would be invisible on this circuit");
  if ((int)refTrace.size() != 6 * lbSteps) fail("HARNESS-unexpected-number-of-decision-points", std::to_string(refTrace.size()) + " for " + std::to_string(lbSteps) + " steps");
  {
    int l2; bool d2;
    Obs again = runOnce(s, {}, l2, d2);
    if (!(again == ref)) fail("default-schedule-not-reproducible", "two runs of the default schedule differ");
  }
  long long execs = 1;
  std::set<Obs> outcomes;
  outcomes.insert(ref);
  std::function<void(const std::vector<int> &)> explore = [&](const std::vector<int> &pre) {
    int l2; bool d2;
    Obs o = pre.empty() ? ref : runOnce(s, pre, l2, d2);
    std::vector<sched::DPoint> tr = pre.empty() ? refTrace : sched::trace;
    if (!pre.empty()) {
      ++execs;
      if (!sched::err.empty()) fail("HARNESS-scheduler-error", sched::err + " on schedule " + prefixStr(pre));
      // divergence while replaying the prefix is a hard error
      for (size_t i = 0; i < pre.size() && i < tr.size(); ++i)
        if (tr[i].chosen != pre[i]) fail("HARNESS-prefix-diverged", prefixStr(pre));
      outcomes.insert(o);
      if (!(o == ref)) {
        // replay the recorded schedule twice before reporting
        std::vector<int> full;
        for (auto &p : tr) full.push_back(p.chosen);
        Obs r1 = runOnce(s, full, l2, d2), r2 = runOnce(s, full, l2, d2);
        if (r1 == o && r2 == o)
          fail("result-depends-on-schedule", "schedule " + prefixStr(full) + " (" + std::to_string(bound) + " preemptions allowed) gives a different solver result / placement than the default schedule");
        else
          fail("schedule-not-reproducible", "schedule " + prefixStr(full) + " gives different results when replayed");
      }
    }
    for (size_t i = pre.size(); i < tr.size(); ++i) {
      int cost = 0;
      for (size_t j = 0; j < i; ++j) if (tr[j].chosen != 0 && tr[j].running >= 0) ++cost;
      const sched::DPoint &p = tr[i];
      for (int alt = 1; alt < (int)p.enabled.size(); ++alt) {
        int c2 = cost + (p.running >= 0 ? 1 : 0);  // switching away from a runnable thread is a preemption
        if (c2 > bound) continue;
        std::vector<int> np;
        for (size_t j = 0; j < i; ++j) np.push_back(tr[j].chosen);
        np.push_back(alt);
        explore(np);
      }
    }
  };
  explore({});
  ctx.count("states", execs);             // one schedule = one explored execution
  ctx.count("transitions", execs * 6 * lbSteps);
  ctx.count("traces_validated_against_impl", execs);
  ctx.count("schedules_explored", execs);
  ctx.countMax("max:distinct_outcomes_per_instance", (long long)outcomes.size());
  ctx.countMax("max:decision_points", 6 * lbSteps);
  ctx.nontrivial(hashSpec(inst));
  return out;
}

static uint64_t solutionHash(const Circuit &c) {
  uint64_t h = 1469598103934665603ULL;
  for (int x : c.cellX()) h = vf::mix(h, (uint32_t)x);
  for (int y : c.cellY()) h = vf::mix(h, (uint32_t)y);
  for (auto o : c.cellOrientation()) h = vf::mix(h, (uint32_t)o);
  return h;
}

static uint64_t runStage(Circuit &c, int stage, const ColoquinteParameters &p, bool withCb) {
  std::optional<PlacementCallback> cb;
  uint64_t seenInCb = 0;
  if (withCb) cb = PlacementCallback([&](PlacementStep) { seenInCb = vf::mix(seenInCb, solutionHash(c)); });
  CallResult r = guarded([&] {
    if (stage == 0) c.placeGlobal(p, cb);
    else if (stage == 1) c.legalize(p, cb);
    else c.placeDetailed(p, cb);
  });
  return vf::mix(solutionHash(c), r.threw ? 1 : 0);
}

static std::vector<Spec> histCircuits() {
  std::vector<Spec> v = gpRepresentatives();
  v.resize(3);
  for (auto &s : v) { s.devs = {{F_maxNbSteps, 12}}; s.seed = 3; }
  // non-default but accepted options on two of the circuits: initial steps without penalty, other net models, reordering
  v[1].devs = {{F_maxNbSteps, 12}, {F_nbInitialSteps, 2}, {F_reorderingMaxNbCells, 3}};
  v[2].devs = {{F_maxNbSteps, 9}, {F_nbInitialSteps, 3}, {F_netModel, 1}, {F_approximationDistance, 7.0}, {F_shiftMaxNbCells, 3}};
  // a medium-size circuit (24 cells on 4 rows: several shift / search windows per pass) under two parameter sets whose
  // window sizes and efforts differ: state that the first call of a process fixes shows when the other one follows
  {
    std::vector<Spec> med;
    MediumCfg mc;
    mc.polarities = false;
    enumerateMedium(mc, [&](const Spec &m) { med.push_back(m); });
    // member 145 of the grid without polarities: 24 equal cells starting on one spot, 4 rows, 12 three-pin nets (dense rows after
    // legalization, so the partition of a row group into shift windows decides the result)
    Spec a = med.at(145), b = med.at(145);
    a.effort = 2; a.seed = 3; a.devs = {{F_maxNbSteps, 8}, {F_shiftMaxNbCells, 4}, {F_lsNeighbours, 1}};
    b.effort = 9; b.seed = 3; b.devs = {{F_maxNbSteps, 8}, {F_shiftMaxNbCells, 14}, {F_reorderingMaxNbCells, 3}};
    v.push_back(a);
    v.push_back(b);
    // member 805: 40 cells on 10 rows, 20 nets - several density bins, so that the rough legalizer's cost terms (which depend on
    // the size of the placement area) decide between bins; after a run on a circuit with another area
    Spec g = med.at(805);
    g.seed = 3; g.devs = {{F_maxNbSteps, 12}};
    v.push_back(g);
  }
  return v;
}

// run (circuit k, stage) alone in a pristine process.  A plain fork() of the worker is not pristine: it inherits every
// function-local static and cache that earlier evaluations of this worker have initialised.  Each worker therefore forks a
// "zygote" on its first hist evaluation, before it has called the library at all; the zygote never calls the library
// itself and forks one grandchild per request.
static int gZygoteReq = -1, gZygoteResp = -1;
static void startZygote() {
  int req[2], resp[2];
  if (pipe(req) != 0 || pipe(resp) != 0) return;
  fflush(nullptr);
  pid_t pid = fork();
  if (pid == 0) {
    close(req[1]);
    close(resp[0]);
    int msg[2];
    while (read(req[0], msg, sizeof msg) == (ssize_t)sizeof msg) {
      pid_t g = fork();
      if (g == 0) {
        auto circuits = histCircuits();
        Circuit c = build(circuits[msg[0]]);
        uint64_t h = runStage(c, msg[1], makeParams(circuits[msg[0]]), false);
        (void)!write(resp[1], &h, sizeof h);
        _exit(0);
      }
      int st;
      waitpid(g, &st, 0);
      if (!(WIFEXITED(st) && WEXITSTATUS(st) == 0)) { uint64_t h = 0xdeadULL; (void)!write(resp[1], &h, sizeof h); }
    }
    _exit(0);
  }
  close(req[0]);
  close(resp[1]);
  gZygoteReq = req[1];
  gZygoteResp = resp[0];
}
static uint64_t aloneInPristineProcess(int k, int stage) {
  int msg[2] = {k, stage};
  if (gZygoteReq < 0 || write(gZygoteReq, msg, sizeof msg) != (ssize_t)sizeof msg) return 0;
  uint64_t h = 0;
  (void)!read(gZygoteResp, &h, sizeof h);
  return h;
}

// hist instance: aux = sequence of (circuit*6 + stage*2 + cb) items base 64 (digit+1), least significant first
static vf::Verdicts evalHist(const Spec &inst, vf::Ctx &ctx) {
  vf::Verdicts out;
  if (gZygoteReq < 0) startZygote();  // first evaluation of this worker: nothing of the library has run in this process yet
  auto circuits = histCircuits();
  std::vector<int> items;
  for (int a = inst.aux; a > 0; a /= 64) items.push_back(a % 64 - 1);
  uint64_t last = 0;
  int k = 0, stage = 0;
  std::vector<Circuit> keepAlive;  // earlier circuits stay allocated, as in a long-lived process
  for (int it : items) {
    k = it / 6;
    stage = (it % 6) / 2;
    bool cb = it % 2;
    Circuit orig = build(circuits[k]);
    Circuit copy = orig;  // runs on copies
    last = runStage(copy, stage, makeParams(circuits[k]), cb);
    uint64_t again = runStage(orig, stage, makeParams(circuits[k]), !cb);
    if (again != last)
      out.push_back({"copy-or-callback-changes-result", "run " + std::to_string(it) + " differs between a circuit and its copy / with and without callback | sequence " + std::to_string(inst.aux)});
    keepAlive.push_back(copy);
    ctx.count("runs_in_sequences", 2);
  }
  uint64_t alone = aloneInPristineProcess(k, stage);
  if (alone != last)
    out.push_back({"result-depends-on-earlier-runs", "last run (circuit " + std::to_string(k) + ", stage " + std::to_string(stage) + ") of sequence " + std::to_string(inst.aux) +
                                                       " differs from the same run alone in a fresh process"});
  ctx.count("states", (long long)items.size() + 1);
  ctx.count("transitions", (long long)items.size());
  ctx.count("traces_validated_against_impl", 1);
  if (items.size() >= 2) ctx.nontrivial(vf::fnv("hist" + std::to_string(inst.aux)));
  return out;
}

// ---- API histories (pass hist, instances with aux2 == 7) ---------------------------------------------------------
// A circuit object is driven through a sequence of public operations (setters between stages, placement calls that
// return or throw, copies, a callback that resizes cells).  Then the same placement stage is run on that object and on a
// clone rebuilt from nothing but its observable state (every getter).  Placement being a pure function of the circuit and
// the parameters, the two results must be identical: whatever else the object remembers from its history must not matter.
static const int N_API_OPS = 16;
static const char *apiOpName[N_API_OPS] = {"toggleFixed(0)", "widen(1)", "moveX(0)", "orient(1,FS)", "dropLastNet", "addNet", "shortenRow(0)", "placeGlobal", "legalize",
                                           "placeDetailed", "copyAndAssignBack", "legalize(rejected params)", "placeGlobal(callback throws)", "placeGlobal(callback widens)",
                                           "polarity(1,SAME)", "toggleObstruction(0)"};
static Circuit cloneFromGetters(const Circuit &c) {
  Circuit d(c.nbCells());
  d.setCellWidth(std::vector<int>(c.cellWidth()));
  d.setCellHeight(std::vector<int>(c.cellHeight()));
  d.setCellIsFixed(std::vector<bool>(c.cellIsFixed()));
  d.setCellIsObstruction(std::vector<bool>(c.cellIsObstruction()));
  d.setCellRowPolarity(std::vector<CellRowPolarity>(c.cellRowPolarity()));
  d.setCellOrientation(std::vector<CellOrientation>(c.cellOrientation()));
  d.setCellX(std::vector<int>(c.cellX()));
  d.setCellY(std::vector<int>(c.cellY()));
  d.setNets(std::vector<int>(c.netLimits_), std::vector<int>(c.pinCells_), std::vector<int>(c.pinXOffsets_), std::vector<int>(c.pinYOffsets_),
            std::vector<float>(c.netWeights_));
  d.setRows(std::vector<Row>(c.rows()));
  return d;
}
static void applyApiOp(Circuit &c, int op, const ColoquinteParameters &p) {
  int n = c.nbCells();
  guarded([&] {
    switch (op) {
      case 0: { auto f = c.cellIsFixed(); f[0] = !f[0]; c.setCellIsFixed(f); break; }
      case 1: { auto w = c.cellWidth(); w[1 % n] += 1; c.setCellWidth(w); break; }
      case 2: { auto x = c.cellX(); x[0] += 3; c.setCellX(x); break; }
      case 3: { auto o = c.cellOrientation(); o[1 % n] = CellOrientation::FS; c.setCellOrientation(o); break; }
      case 4: {
        if (c.nbNets() == 0) break;
        int last = c.nbNets() - 1, np = c.netLimits_[last];
        c.setNets(std::vector<int>(c.netLimits_.begin(), c.netLimits_.end() - 1), std::vector<int>(c.pinCells_.begin(), c.pinCells_.begin() + np),
                  std::vector<int>(c.pinXOffsets_.begin(), c.pinXOffsets_.begin() + np), std::vector<int>(c.pinYOffsets_.begin(), c.pinYOffsets_.begin() + np),
                  std::vector<float>(c.netWeights_.begin(), c.netWeights_.end() - 1));
        break;
      }
      case 5: c.addNet({0, n - 1}, {0, 1}, {1, 0}); break;
      case 6: { auto r = c.rows(); if (!r.empty() && r[0].maxX - r[0].minX > 6) { r[0].maxX -= 1; c.setRows(r); } break; }
      case 7: c.placeGlobal(p); break;
      case 8: c.legalize(p); break;
      case 9: c.placeDetailed(p); break;
      case 10: { Circuit d = c; Circuit e(1); e = d; c = e; break; }
      case 11: { ColoquinteParameters q = p; q.legalization.orderingWidth = 7.0; c.legalize(q); break; }
      case 12: c.placeGlobal(p, PlacementCallback([](PlacementStep) { throw std::runtime_error("callback fault"); })); break;
      case 13: {
        bool done = false;
        c.placeGlobal(p, PlacementCallback([&](PlacementStep st) {
          if (st != PlacementStep::UpperBound || done) return;
          done = true;
          auto w = c.cellWidth();
          for (int i = 0; i < c.nbCells(); ++i) if (!c.cellIsFixed()[i] && w[i] > 0) w[i] += 1;
          c.setCellWidth(w);
        }));
        break;
      }
      case 14: { auto pol = c.cellRowPolarity(); pol[1 % n] = CellRowPolarity::SAME; c.setCellRowPolarity(pol); break; }
      case 15: { auto ob = c.cellIsObstruction(); ob[0] = !ob[0]; c.setCellIsObstruction(ob); break; }
    }
  });
}
static vf::Verdicts evalApi(const Spec &inst, vf::Ctx &ctx) {
  vf::Verdicts out;
  auto circuits = histCircuits();
  int code = inst.aux;
  int k = code % 4; code /= 4;        // base circuit
  int finalStage = code % 3; code /= 3;
  const Spec &base = circuits[k == 3 ? 4 : k];
  ColoquinteParameters p = makeParams(base);
  Circuit c = build(base);
  std::string hist;
  while (code > 0) {
    int op = code % 32 - 1;
    code /= 32;
    applyApiOp(c, op, p);
    hist += std::string(" ") + apiOpName[op];
  }
  Circuit fresh = cloneFromGetters(c);
  Circuit viaCopy = c;
  uint64_t a = runStage(c, finalStage, p, false);
  uint64_t b = runStage(fresh, finalStage, p, false);
  uint64_t d = runStage(viaCopy, finalStage, p, true);
  static const char *stageName[3] = {"placeGlobal", "legalize", "placeDetailed"};
  if (a != b)
    out.push_back({"result-depends-on-the-history-of-the-object", std::string(stageName[finalStage]) + " after" + hist + " differs from the same call on a circuit rebuilt from the getters | circuit " + std::to_string(k)});
  if (a != d)
    out.push_back({"copy-or-callback-changes-result", std::string(stageName[finalStage]) + " after" + hist + " differs on a copy / with a callback | circuit " + std::to_string(k)});
  ctx.count("states", 2);
  ctx.count("transitions", 3);
  ctx.count("traces_validated_against_impl", 1);
  ctx.count("api_histories");
  ctx.nontrivial(vf::fnv("api" + std::to_string(inst.aux)));
  return out;
}

static vf::Verdicts evalTsan(const Spec &inst, vf::Ctx &ctx) {
  // free-running: any race report halts the worker (halt_on_error) and is attributed to this instance
  int steps = inst.aux2 % 16, model = (inst.aux2 / 16) % 4;
  Spec s = schedSpec(inst, steps, model);
  Circuit c = build(s);
  guarded([&] { c.placeGlobal(makeParams(s), [&](PlacementStep) {}); });
  Circuit d = build(s);
  guarded([&] { d.placeGlobal(makeParams(s)); d.placeDetailed(makeParams(s)); });
  ctx.count("states", 1);
  ctx.count("transitions", 2);
  ctx.count("traces_validated_against_impl", 1);
  ctx.count("free_running_placements", 2);
  ctx.nontrivial(hashSpec(inst) ^ 0x77);
  return {};
}

static void enumerateAll(const std::function<void(const Spec &)> &f) {
  if (gPass == "memcheck") {
    // every single run, and every pair starting with a global placement, under valgrind memcheck (a result that depends on
    // uninitialised memory depends on the history of the process)
    int nItems = 3 * 6;
    for (int a = 0; a < nItems; ++a) {
      Spec s; s.aux = a + 1; f(s);
      if ((a % 6) / 2 == 0 && a % 2 == 0)
        for (int b = 0; b < nItems; b += 2) { Spec t; t.aux = (a + 1) + 64 * (b + 1); f(t); }
    }
    return;
  }
  if (gPass == "hist") {
    // API histories: every sequence of <= 2 operations (thorough: 3 on a third) x final stage x base circuit
    for (int k = 0; k < 4; ++k)
      for (int fs = 0; fs < 3; ++fs) {
        auto code = [&](std::vector<int> ops) { int c = 0; for (size_t i = ops.size(); i-- > 0;) c = c * 32 + ops[i] + 1; return k + 4 * (fs + 3 * c); };
        { Spec s; s.aux = code({}); s.aux2 = 7; f(s); }
        for (int a = 0; a < N_API_OPS; ++a) {
          { Spec s; s.aux = code({a}); s.aux2 = 7; f(s); }
          for (int b = 0; b < N_API_OPS; ++b) {
            if (!gThorough && k == 3 && (a + b) % 2) continue;  // the 24-cell circuit: half of the pairs in quick
            { Spec s; s.aux = code({a, b}); s.aux2 = 7; f(s); }
            if (gThorough && k < 2)
              for (int c3 = 0; c3 < N_API_OPS; ++c3) { if ((a + b + c3) % 3) continue; Spec s; s.aux = code({a, b, c3}); s.aux2 = 7; f(s); }
          }
        }
      }
    int nItems = 6 * 6;
    for (int a = 0; a < nItems; ++a) {
      Spec s; s.aux = a + 1; f(s);
      for (int b = 0; b < nItems; ++b) {
        if (!gThorough && (a % 2 != b % 2)) continue;
        Spec t; t.aux = (a + 1) + 64 * (b + 1); f(t);
        if (gThorough)
          for (int c = 0; c < nItems; c += 1) {
            if ((a + b + c) % 3) continue;
            Spec u; u.aux = (a + 1) + 64 * (b + 1) + 4096 * (c + 1); f(u);
          }
      }
    }
    return;
  }
  // circuits: GP alphabet members with pins spread in both axes (x and y systems differ)
  std::vector<Spec> circuits;
  {
    auto shapes = gpShapes(1);
    auto sets = gpCellSets(1);
    circuits.push_back(gpSpec(shapes[2], sets[3], 1, 3, 1));
    circuits.push_back(gpSpec(shapes[14], sets[4], 3, 4, 1));
    circuits.push_back(gpSpec(shapes[9], sets[2], 1, 2, 2));
    if (gThorough || gPass == "tsan") {
      circuits.push_back(gpSpec(shapes[5], sets[6], 3, 3, 1));
      circuits.push_back(gpSpec(shapes[20], sets[3], 1, 4, 2));
    }
  }
  for (size_t k = 0; k < circuits.size(); ++k)
    for (int model = 0; model < 4; ++model) {
      if (gPass == "tsan") {
        for (int steps : {4, 12}) { Spec s = circuits[k]; s.aux = (int)k; s.aux2 = steps + 16 * model; f(s); }
        continue;
      }
      for (int steps : {3, 6}) {
        if (!gThorough && model != 0 && steps == 6) continue;
        int maxBound = gThorough ? (steps == 3 ? 3 : 2) : 2;
        if (!gThorough && steps == 6) maxBound = 2;
        // iterate the bound: 0, then 1, then 2 (each is a separate instance so that the first counterexample has the fewest preemptions)
        for (int bound = 0; bound <= maxBound; ++bound) {
          Spec s = circuits[k];
          s.aux = (int)k;
          s.aux2 = steps + 16 * model + 64 * bound;
          f(s);
        }
      }
    }
}

int main(int argc, char **argv) {
  vf::Opts o = vf::parseOpts(argc, argv);
  gThorough = o.thorough();
  gPass = o.pass;
  vf::Check<Spec> c;
  c.property = "C08";
  c.level = "model_checking";
  if (gPass == "sched")
    c.rule =
        "pass sched: Circuit::placeGlobal (gap/distance tolerance 0 so that every step runs its two asynchronous solves) on 3 (5) circuits x net models x {3,6} lower-bound steps under a "
        "cooperative scheduler that serialises the x and y solves at three hooked points each; every schedule with <= p preemptions over the whole run, p iterated 0,1,2(,3); "
        "observation = raw float bits of every solver result keyed by (step, axis), the coordinates seen at every callback and the returned solution, compared bitwise with the "
        "default schedule; a differing schedule is replayed twice before it is reported; one explored schedule = one state (execution)";
  else if (gPass == "tsan")
    c.rule = "pass tsan: the same circuits and parameter sets free-running (no scheduler) in a ThreadSanitizer build, global placement with and without callback followed by detailed placement; "
             "a race report halts the worker and is attributed to the instance";
  else if (gPass == "memcheck")
    c.rule = "pass memcheck: every single run and every pair starting with a global placement (3 circuits with default and non-default accepted options x 3 stages x callback) executed under "
             "valgrind memcheck; the first use of uninitialised memory or invalid access kills the worker and is attributed to the instance";
  else
    c.rule = "pass hist: (i) API histories: every sequence of <= 2 (thorough 3) operations over {setters of fixed flags, widths, positions, orientations, polarities, nets, rows; the three placement calls; copy and assign back; a placement call refused for its parameters; a callback that throws; a callback that resizes the cells} on one Circuit object (4 base circuits), then each placement stage on that object, on a clone rebuilt from its getters alone, and on a copy with a callback: identical results required; (ii) every sequence of length <= 2 (3 on a third of the product in thorough) of independent runs over 6 circuits (3 small; a 24-cell one under two parameter sets with different efforts and window sizes; a 40-cell one on 10 rows) x {placeGlobal, legalize, placeDetailed} x {callback, none} in one "
             "process, each on a copy and on the original with the callback toggled; the last run of the sequence is compared with the same run alone in a pristine process (forked from a per-worker zygote that was itself forked before the worker made its first library call, so that no static initialised by earlier runs is inherited)";
  c.bounds = gThorough ? "preemption bound 3 (3 steps) / 2 (6 steps)" : "preemption bound 2";
  c.assumptions = {"scheduling points are the hooked points (begin / matrix built / end of each solve); finer-grained races are left to the ThreadSanitizer pass",
                   "the scheduler serialises the workers, the main thread is blocked in future::get meanwhile"};
  c.enumerate = enumerateAll;
  c.encode = [](const Spec &s) { return encode(s); };
  c.decode = [](const std::string &s) { return decode(s); };
  c.eval = [](const Spec &s, vf::Ctx &ctx) {
    // the zygote of the reference runs must be forked before this worker makes its first library call of any kind
    if ((gPass == "hist" || gPass == "memcheck") && gZygoteReq < 0) startZygote();
    if (gPass == "hist" && s.aux2 == 7) return evalApi(s, ctx);
    return (gPass == "hist" || gPass == "memcheck") ? evalHist(s, ctx) : (gPass == "tsan" ? evalTsan(s, ctx) : evalSched(s, ctx));
  };
  c.instanceTimeout = 600;
  // the checks replay by themselves (sched: twice); under a real race a violation need not reproduce, which is itself the finding
  c.replayBeforeReport = false;
  c.deadline = gThorough ? 3000 : 400;
  return vf::runCheck(o, c);
}
