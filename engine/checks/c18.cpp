// C18 — Cell expansion respects density caps and never touches fixed cells.
#include "tca.hpp"

using namespace vt;

static bool gThorough = false;

static const double TARGETS[4] = {0.3, 0.5, 0.8, 0.99};
static const int NM = 5;
static const double MARGINS[NM] = {0.0, 0.5, 1.0, 0.75, 0.3};  // the last two: margin x row height is fractional
static const double CAPS[3] = {0.1, 0.5, 1.0};
static const float FACTORS[4] = {1.0f, 1.25f, 2.0f, 3.5f};
static const float CONG[4] = {0.5f, 1.0f, 1.1f, 2.0f};

// aux: 0 expandCellsToDensity (aux2 = target + 4*margin + 4*NM*cap)
//      1 expandCellsByFactor  (aux2 = factor tuple base 4 + 256*(maxDensity idx + 4*margin))
//      2 computeCellExpansion (aux2 = region-set index)
static std::vector<Spec> circuits() {
  std::vector<Spec> v;
  std::vector<std::vector<RowSpec>> rowSets = {
      {mkRow(0, 12, 0, 2, oN), mkRow(0, 12, 1, 2, oFS)},
      {mkRow(0, 20, 0, 2, oN), mkRow(2, 9, 1, 2, oFS), mkRow(11, 20, 1, 2, oFS), mkRow(0, 7, 3, 2, oN)},
  };
  auto cell = [](int w, int h, int x, int y, bool fixed = false, bool obs = true) {
    CellSpec c; c.w = w; c.h = h; c.x = x; c.y = y; c.fixed = fixed; c.obstruction = obs; return c;
  };
  std::vector<std::vector<CellSpec>> cellSets = {
      {cell(2, 2, 0, 0)},
      {cell(1, 2, 0, 0), cell(3, 2, 5, 2)},
      {cell(1, 2, 0, 0), cell(2, 4, 3, 0), cell(3, 2, 5, 2)},
      {cell(2, 2, 1, 0), cell(0, 2, 3, 0), cell(1, 2, 5, 2), cell(2, 0, 6, 2)},           // zero-width and zero-height cells
      {cell(2, 2, 0, 0), cell(3, 2, 4, 0, true, true), cell(1, 2, 8, 2)},                  // fixed obstruction in a row
      {cell(1, 2, 0, 0), cell(2, 3, 6, 1, true, true), cell(4, 2, 1, 2, true, false), cell(1, 4, 9, 0)},  // straddling obstruction + non-obstruction
      {cell(3, 2, 0, 0), cell(3, 2, 3, 0), cell(3, 2, 6, 0), cell(3, 2, 0, 2)},            // dense
      {cell(1, 10, 0, 0), cell(1, 2, 4, 0)},                                              // movable macro
  };
  for (auto &rs : rowSets)
    for (auto &cs : cellSets) {
      Spec s;
      s.rows = rs;
      s.cells = cs;
      v.push_back(s);
    }
  return v;
}

struct Region { int x0, x1, y0, y1; float c; };
static std::vector<std::vector<Region>> regionSets() {
  std::vector<std::vector<Region>> v;
  std::vector<Region> base = {{0, 4, 0, 2, 0}, {3, 8, 0, 4, 0}, {-2, 1, 1, 3, 0}, {0, 30, 0, 30, 0}, {5, 5, 0, 4, 0}, {6, 7, 2, 3, 0}};
  for (size_t a = 0; a < base.size(); ++a)
    for (int ca = 0; ca < 4; ++ca) {
      Region ra = base[a]; ra.c = CONG[ca];
      v.push_back({ra});
      for (size_t b = a + 1; b < base.size(); ++b)
        for (int cb = 0; cb < 4; ++cb) {
          Region rb = base[b]; rb.c = CONG[cb];
          v.push_back({ra, rb});
          if (gThorough || (a + b + ca + cb) % 3 == 0)
            for (size_t d = b + 1; d < base.size(); ++d) {
              Region rd = base[d]; rd.c = CONG[(ca + cb + 1) % 4];
              v.push_back({rb, ra, rd});
            }
        }
    }
  return v;
}

static void enumerateAll(const std::function<void(const Spec &)> &f0) {
  // every 11th expansion instance also scaled by (9001, 11003): each cell area stays below 2^31, row and total areas do not
  auto f = withMagnitudes(f0, 11, {{1, 9001, 11003}}, [](const Spec &s) { return s.aux == 0 || s.aux == 1; });
  auto cs = circuits();
  size_t nRegionSets = regionSets().size();
  for (auto &c : cs) {
    for (int t = 0; t < 4; ++t)
      for (int m = 0; m < NM; ++m)
        for (int cap = 0; cap < 3; ++cap) { Spec s = c; s.aux = 0; s.aux2 = t + 4 * m + 4 * NM * cap; f(s); }
    int n = c.cells.size();
    int tuples = 1;
    for (int i = 0; i < n; ++i) tuples *= 4;
    for (int tu = 0; tu < tuples; ++tu)
      for (int md = 0; md < 4; ++md)
        for (int m = 0; m < NM; ++m) { Spec s = c; s.aux = 1; s.aux2 = tu + 256 * (md + 4 * m); f(s); }
    for (size_t r = 0; r < nRegionSets; ++r) { Spec s = c; s.aux = 2; s.aux2 = (int)r; f(s); }
    // histories on one Circuit object: expansion, then a change of the fixed cells / rows, then another expansion
    for (int first = 0; first < 3; ++first)
      for (int change = 0; change < 6; ++change)
        for (int second = 0; second < 4; ++second)
          for (int m = 0; m < 2; ++m) { Spec s = c; s.aux = 3; s.aux2 = first + 3 * (change + 6 * (second + 4 * m)); f(s); }
  }
}

// oracle's own available area: rows minus every fixed obstruction, minus the margin on both sides of each free run
static void availableArea(const Spec &s, const Circuit &c, double margin, double &areaReal, long long &areaTrunc, int &nRuns) {
  std::vector<Rect> obs = obstructions(c);
  areaReal = 0;
  areaTrunc = 0;
  nRuns = 0;
  for (auto &r : s.rows) {
    long long h = r.maxY - r.minY;
    for (auto &run : freeRuns(r, obs)) {
      ++nRuns;
      double w = (double)(run.second - run.first) - 2.0 * margin * h;
      if (w > 0) {
        areaReal += w * h;
        areaTrunc += (long long)w * h;
      }
    }
  }
}

static vf::Verdicts eval(const Spec &s, vf::Ctx &ctx) {
  vf::Verdicts out;
  std::set<std::string> seen;
  auto fail = [&](const std::string &cls, const std::string &msg) {
    if (seen.insert(cls).second) out.push_back({cls, msg + " | aux " + std::to_string(s.aux) + "/" + std::to_string(s.aux2) + " " + describe(s)});
  };
  Circuit c = build(s);
  Snapshot before = snapshot(c);
  int n = c.nbCells();
  int maxH = 0, maxRowW = 0;
  for (auto &cs : s.cells) if (!cs.fixed) maxH = std::max(maxH, cs.h);
  for (auto &r : s.rows) maxRowW = std::max(maxRowW, r.maxX - r.minX);
  auto movableArea = [&](const Circuit &cc) {
    long long a = 0;
    for (int i = 0; i < n; ++i) if (!s.cells[i].fixed) a += (long long)cc.cellWidth()[i] * cc.cellHeight()[i];
    return a;
  };
  auto onlyWidthsOfMovable = [&](const Snapshot &a, const Snapshot &b) -> std::string {
    Snapshot a2 = a, b2 = b;
    for (int i = 0; i < n; ++i) {
      if (s.cells[i].fixed && a.w[i] != b.w[i]) return "fixed-cell-width-changed";
      a2.w[i] = b2.w[i] = 0;
    }
    std::string d = diffStructure(a2, b2);
    if (!d.empty()) return "changed:" + d;
    if (!samePlacement(a, b)) return "placement-changed";
    return "";
  };
  if (s.aux == 0) {
    double target = TARGETS[s.aux2 % 4], margin = MARGINS[(s.aux2 / 4) % NM], cap = CAPS[s.aux2 / (4 * NM)];
    double availReal; long long availTrunc; int nRuns;
    availableArea(s, c, margin, availReal, availTrunc, nRuns);
    long long area0 = movableArea(c);
    CallResult r = guarded([&] { c.expandCellsToDensity(target, margin, cap); });
    if (r.threw) { fail("expandCellsToDensity-throws", r.what); return out; }
    Snapshot after = snapshot(c);
    std::string d = onlyWidthsOfMovable(before, after);
    if (!d.empty()) fail("to-density:" + d, "");
    bool hitCap = false, changed = false;
    double capW = cap * maxRowW;
    for (int i = 0; i < n; ++i) {
      if (s.cells[i].fixed) continue;
      if (after.w[i] != before.w[i]) changed = true;
      if (capW >= before.w[i] && after.w[i] < before.w[i]) fail("to-density:cell-narrowed", "cell " + std::to_string(i) + " " + std::to_string(before.w[i]) + " -> " + std::to_string(after.w[i]));
      // (a cell may legitimately end above the per-cell cap: the area lost by rounding/capping one cell is carried to the
      //  following ones; the property only bounds the utilisation, so no per-cell upper bound is asserted here)
      if ((double)before.w[i] * (target * availTrunc / std::max(1LL, area0)) >= capW) hitCap = true;
    }
    long long area1 = movableArea(c);
    if (changed && (double)area1 > target * availReal + 1e-6 * (1 + availReal))
      fail("to-density:utilisation-above-target", "area " + std::to_string(area1) + " > " + std::to_string(target) + " * " + std::to_string(availReal));
    double dens0 = availTrunc > 0 ? (double)area0 / availTrunc : 1e9;
    if (area0 > 0 && availTrunc > 0 && dens0 < target && !hitCap) {
      // reachable without the cap: within one cell height of target x available (+ the truncation of the margin, < one row height per free run)
      double slack = maxH + target * nRuns * (double)(s.rows[0].maxY - s.rows[0].minY) + 1e-6;
      if (std::fabs((double)area1 - target * availReal) > slack)
        fail("to-density:target-missed", "area " + std::to_string(area1) + " vs target*available " + std::to_string(target * availReal) + " slack " + std::to_string(slack));
      ctx.count("to_density_target_reached_cases");
    }
    if (changed) ctx.nontrivial(hashSpec(s));
    return out;
  }
  if (s.aux == 1) {
    int tu = s.aux2 % 256, rest = s.aux2 / 256;
    static const double MAXD[4] = {0.1, 0.5, 0.8, 1.0};
    double maxDensity = MAXD[rest % 4], margin = MARGINS[rest / 4];
    std::vector<float> fac(n);
    for (int i = 0; i < n; ++i) { fac[i] = FACTORS[tu % 4]; tu /= 4; }
    double availReal; long long availTrunc; int nRuns;
    availableArea(s, c, margin, availReal, availTrunc, nRuns);
    long long area0 = movableArea(c);
    double ret = 0;
    CallResult r = guarded([&] { ret = c.expandCellsByFactor(fac, maxDensity, margin); });
    if (r.threw) { fail("expandCellsByFactor-throws", r.what); return out; }
    Snapshot after = snapshot(c);
    std::string d = onlyWidthsOfMovable(before, after);
    if (!d.empty()) fail("by-factor:" + d, "");
    bool changed = false;
    long long slack = 0;
    for (int i = 0; i < n; ++i) {
      if (s.cells[i].fixed) continue;
      if (after.w[i] != before.w[i]) changed = true;
      if (after.w[i] < before.w[i]) fail("by-factor:cell-narrowed", "cell " + std::to_string(i));
      if ((double)after.w[i] > (double)before.w[i] * fac[i] + 1e-3) fail("by-factor:cell-beyond-its-factor", "cell " + std::to_string(i));
      slack += s.cells[i].h;  // one unit of width per cell (float product)
    }
    long long area1 = movableArea(c);
    if (changed && (double)area1 > maxDensity * availReal + slack + 1e-6)
      fail("by-factor:utilisation-above-cap", "area " + std::to_string(area1) + " > " + std::to_string(maxDensity) + " * " + std::to_string(availReal));
    if (!(ret >= 1.0 - 1e-6)) fail("by-factor:average-expansion-below-1", std::to_string(ret));
    (void)area0;
    if (changed) ctx.nontrivial(hashSpec(s));
    return out;
  }
  if (s.aux == 3) {
    // differential oracle: the object that went through the history must end exactly like a fresh object that is given the
    // intermediate state and only performs the last operation
    int first = s.aux2 % 3, change = (s.aux2 / 3) % 6, second = (s.aux2 / 18) % 4;
    double margin = MARGINS[(s.aux2 / 72) % 2];
    auto doFirst = [&](Circuit &cc) {
      if (first == 0) cc.expandCellsToDensity(0.3, margin, 1.0);
      else if (first == 1) cc.expandCellsByFactor(std::vector<float>(n, 1.25f), 0.5, margin);
      else cc.computeRows();
    };
    // a fixed obstruction is appended so that every circuit has one to play with
    Spec s2 = s;
    CellSpec blk; blk.w = 4; blk.h = 2; blk.x = 40; blk.y = 0; blk.fixed = true; blk.obstruction = true;
    s2.cells.push_back(blk);
    Circuit a = build(s2);
    int nn = a.nbCells(), fc = nn - 1;
    auto doChange = [&](Circuit &cc) {
      std::vector<int> x = cc.cellX(), y = cc.cellY();
      switch (change) {
        case 0: x[fc] = 2; cc.setCellX(x); break;                                  // the obstruction moves onto the rows
        case 1: y[fc] = 2; x[fc] = 1; cc.setCellY(y); cc.setCellX(x); break;
        case 2: { PlacementSolution sol = cc.solution(); sol[fc] = CellPlacement(3, 0, CellOrientation::N); cc.setSolution(sol); break; }
        case 3: { auto fl = cc.cellIsObstruction(); fl[fc] = false; cc.setCellIsObstruction(fl); x[fc] = 2; cc.setCellX(x); break; }
        case 4: { auto w = cc.cellWidth(); w[fc] = 9; cc.setCellWidth(w); x[fc] = 0; cc.setCellX(x); break; }
        default: { std::vector<Row> rows(cc.rows()); rows.pop_back(); cc.setRows(rows); break; }
      }
    };
    std::vector<float> fac(nn, 2.0f);
    auto doSecond = [&](Circuit &cc) {
      if (second == 0) cc.expandCellsToDensity(0.8, margin, 1.0);
      else if (second == 1) cc.expandCellsToDensity(0.99, margin, 0.5);
      else if (second == 2) cc.expandCellsByFactor(fac, 0.8, margin);
      else cc.expandCellsByFactor(fac, 1.0, margin);
    };
    n = nn;
    CallResult r1 = guarded([&] { doFirst(a); doChange(a); });
    if (r1.threw) { fail("history-throws", r1.what); return out; }
    // fresh object with the same public state
    Circuit b(nn);
    b.setCellWidth(a.cellWidth()); b.setCellHeight(a.cellHeight()); b.setCellX(a.cellX()); b.setCellY(a.cellY());
    b.setCellIsFixed(a.cellIsFixed()); b.setCellIsObstruction(a.cellIsObstruction()); b.setCellOrientation(a.cellOrientation());
    b.setCellRowPolarity(a.cellRowPolarity()); b.setRows(a.rows());
    CallResult ra = guarded([&] { doSecond(a); }), rb = guarded([&] { doSecond(b); });
    if (ra.threw != rb.threw) fail("history-changes-outcome", ra.threw ? ra.what : rb.what);
    if (a.cellWidth() != b.cellWidth())
      fail("expansion-depends-on-history", "widths after history " + vf::joinInts(a.cellWidth()) + " vs fresh object " + vf::joinInts(b.cellWidth()));
    if (a.cellWidth() != before.w || true) ctx.nontrivial(hashSpec(s));
    return out;
  }
  // computeCellExpansion
  auto sets = regionSets();
  const auto &regs = sets[s.aux2 % sets.size()];
  for (int variant = 0; variant < 3; ++variant) {
    float fixedPenalty = variant == 1 ? 0.5f : 0.0f, penaltyFactor = variant == 2 ? 2.0f : 1.0f;
    std::vector<Circuit::CongestionRegion> map;
    for (auto &rg : regs) map.emplace_back(Rectangle(rg.x0, rg.x1, rg.y0, rg.y1), rg.c);
    std::vector<float> got;
    CallResult r = guarded([&] { got = c.computeCellExpansion(map, fixedPenalty, penaltyFactor); });
    if (r.threw) { fail("computeCellExpansion-throws", r.what); return out; }
    if ((int)got.size() != n) { fail("expansion-size", ""); return out; }
    bool any = false;
    for (int i = 0; i < n; ++i) {
      float want = 1.0f;
      if (!s.cells[i].fixed) {
        Rect pl{s.cells[i].x, s.cells[i].x + s.cells[i].w, s.cells[i].y, s.cells[i].y + s.cells[i].h};
        for (auto &rg : regs) {
          if (!(rg.c > 1.0f)) continue;
          // same open-set convention as Rectangle::intersects, which is the documented meaning of "intersects"
          bool meets = pl.x0 < rg.x1 && rg.x0 < pl.x1 && pl.y0 < rg.y1 && rg.y0 < pl.y1;
          if (meets) want = std::max(want, (float)((rg.c - 1.0f) * penaltyFactor + fixedPenalty + 1.0));
        }
      }
      if (want != 1.0f) any = true;
      if (std::fabs(got[i] - want) > 1e-5f)
        fail("expansion-factor-differs", "cell " + std::to_string(i) + " got " + std::to_string(got[i]) + " want " + std::to_string(want));
    }
    if (any) ctx.nontrivial(hashSpec(s) + variant);
  }
  if (!seen.count("x")) {
    Snapshot after = snapshot(c);
    if (!diffStructure(before, after).empty() || !samePlacement(before, after)) fail("computeCellExpansion-modified-circuit", "");
  }
  return out;
}

int main(int argc, char **argv) {
  vf::Opts o = vf::parseOpts(argc, argv);
  gThorough = o.thorough() && o.pass != "san";  // the secondary sanitizer pass of the thorough tier uses the quick alphabet
  vf::Check<Spec> c;
  c.property = "C18";
  c.level = "exploration";
  c.rule =
      "16 circuits (2 row sets incl. split rows x 8 cell sets: mixed heights, zero-width / zero-height cells, fixed obstruction in a row, straddling obstruction, fixed "
      "non-obstruction, dense, movable macro) x expandCellsToDensity over targets {0.3,0.5,0.8,0.99} x margins {0,0.5,1,0.75,0.3} x caps {0.1,0.5,1}; x expandCellsByFactor over every factor "
      "vector in {1,1.25,2,3.5}^n x max densities {0.1,0.5,0.8,1} x margins; x computeCellExpansion over every set of <= 2 (some/all 3) overlapping regions from a 6-rectangle menu "
      "with congestion {0.5,1,1.1,2} and three (fixedPenalty, penaltyFactor) pairs; x histories on one Circuit object (an expansion or a computeRows query, then one of six changes of a fixed obstruction / the rows through the public setters, then one of four expansions) compared with a fresh object that only performs the last call; oracle: snapshot comparison (only widths of movable cells may change), no narrowing, "
      "area <= target x available (oracle's own rows-minus-all-obstructions-minus-margin area), target reached within one cell height when the cap is not hit, max-over-"
      "intersecting-regions formula; non-trivial = a width changed / a factor differs from 1";
  c.bounds = "as listed";
  c.enumerate = enumerateAll;
  c.encode = [](const Spec &s) { return encode(s); };
  c.decode = [](const std::string &s) { return decode(s); };
  c.eval = eval;
  c.deadline = 600;
  return vf::runCheck(o, c);
}
