// C14 — Transportation1d: optimal plan, memory-safe rounding.
// Exhaustive enumeration of tiny instances; runs in the sanitizer flavour so
// that any out-of-bounds access is reported (worker fate oracle).
#include "place_global/transportation_1d.hpp"
#include "verif.hpp"

struct CallResult { bool threw = false; std::string what; };
template <class F> CallResult guarded(F &&f) { CallResult r; try { f(); } catch (const std::exception &e) { r.threw = true; r.what = e.what(); } catch (...) { r.threw = true; r.what = "non-std"; } return r; }

struct Inst {
  std::vector<long long> u, v, s, d;
  int balance;  // 1: call balanceDemand() first (over-full instances)
  long long scale, shift;
  long long qscale = 1;  // supplies and demands multiplied by this (areas are 64-bit)
};

static std::string enc(const Inst &in) {
  return vf::joinInts(in.u) + "|" + vf::joinInts(in.v) + "|" + vf::joinInts(in.s) + "|" + vf::joinInts(in.d) + "|" +
         std::to_string(in.balance) + "|" + std::to_string(in.scale) + "|" + std::to_string(in.shift) + "|" + std::to_string(in.qscale);
}
static Inst dec(const std::string &str) {
  auto p = vf::splitStr(str, '|');
  Inst in;
  in.u = vf::splitInts(p[0]); in.v = vf::splitInts(p[1]); in.s = vf::splitInts(p[2]); in.d = vf::splitInts(p[3]);
  in.balance = atoi(p[4].c_str()); in.scale = atoll(p[5].c_str()); in.shift = atoll(p[6].c_str());
  in.qscale = p.size() > 7 ? atoll(p[7].c_str()) : 1;
  return in;
}

// reference: optimal cost by the non-crossing matching DP on sorted unit lists
// (for costs |x-y| an optimal plan matches sorted supply units to an increasing
// subsequence of sorted demand units)
static long long refCost(const std::vector<long long> &u, const std::vector<long long> &v, const std::vector<long long> &s,
                         const std::vector<long long> &d) {
  std::vector<long long> a, b;
  for (size_t i = 0; i < u.size(); ++i) for (long long k = 0; k < s[i]; ++k) a.push_back(u[i]);
  for (size_t j = 0; j < v.size(); ++j) for (long long k = 0; k < d[j]; ++k) b.push_back(v[j]);
  std::sort(a.begin(), a.end());
  std::sort(b.begin(), b.end());
  const long long INF = 1LL << 60;
  std::vector<long long> prev(b.size() + 1, 0), cur(b.size() + 1);
  for (size_t i = 1; i <= a.size(); ++i) {
    cur[0] = INF;
    for (size_t j = 1; j <= b.size(); ++j) {
      long long take = prev[j - 1] >= INF ? INF : prev[j - 1] + std::llabs(a[i - 1] - b[j - 1]);
      cur[j] = std::min(cur[j - 1], take);
    }
    prev = cur;
  }
  return prev[b.size()];
}

static vf::Verdicts eval(const Inst &in0, vf::Ctx &ctx) {
  vf::Verdicts out;
  Inst in = in0;
  for (auto &x : in.u) x = x * in.scale + in.shift;
  for (auto &x : in.v) x = x * in.scale + in.shift;
  auto fail = [&](const std::string &cls, const std::string &msg) { out.push_back({cls, msg + " | " + enc(in0)}); };
  int n = in.u.size(), m = in.v.size();
  // reference optimum on the unscaled quantities (the optimum is linear in a common quantity factor)
  const long long Q = in.qscale;
  std::vector<long long> s0 = in.s, d0 = in.d;
  for (auto &x : in.s) x *= Q;
  for (auto &x : in.d) x *= Q;
  Transportation1d pb(in.u, in.v, in.s, in.d);
  std::vector<long long> d = in.d;
  if (in.balance) {
    pb.balanceDemand();
    d = pb.sinkDemand();
    long long ts = 0, td = 0, td0 = 0;
    for (auto x : in.s) ts += x;
    for (auto x : d) td += x;
    for (auto x : in.d) td0 += x;
    if (td < ts) fail("balanceDemand-insufficient", "");
    if (td != std::max(ts, td0)) fail("balanceDemand-wrong-amount", "");
    for (int j = 0; j < m; ++j) if (d[j] < in.d[j]) fail("balanceDemand-decreased-a-sink", "");
  }
  Transportation1d::Solution sol;
  try {
    sol = pb.solve();
  } catch (const std::exception &e) {
    fail("solve-throws", e.what());
    return out;
  }
  // validity
  std::vector<long long> sent(n, 0), got(m, 0);
  long long cost = 0;
  bool valid = true;
  for (auto [i, j, a] : sol) {
    if (i < 0 || i >= n || j < 0 || j >= m || a <= 0) { valid = false; break; }
    sent[i] += a;
    got[j] += a;
    cost += a * std::llabs(in.u[i] - in.v[j]);
  }
  for (int i = 0; i < n && valid; ++i) if (sent[i] != in.s[i]) valid = false;
  for (int j = 0; j < m && valid; ++j) if (got[j] > d[j]) valid = false;
  if (!valid) { fail("plan-invalid", ""); return out; }
  long long opt;
  if (Q == 1) opt = refCost(in.u, in.v, in.s, d);
  else {
    // balanceDemand distributes the missing amount in units, which does not commute with the factor: only unbalanced-free instances are scaled
    opt = refCost(in.u, in.v, s0, d0) * Q;
  }
  if (cost != opt) fail("plan-not-optimal", "cost " + std::to_string(cost) + " optimum " + std::to_string(opt));
  // history on the same object and thread: a user-supplied invalid plan is rejected by the public checker, then everything is asked again
  {
    Transportation1d::Solution bad = sol;
    bad.emplace_back(0, 0, 1);  // one unit too many for source 0
    CallResult rej = guarded([&] { pb.checkSolutionValid(bad); });
    if (!rej.threw) fail("invalid-plan-accepted-by-checkSolutionValid", "");
    Transportation1d::Solution bad2 = {{0, 0, -1}};
    guarded([&] { pb.checkSolutionValid(bad2); });
    Transportation1d::Solution again;
    CallResult r2 = guarded([&] { again = pb.solve(); });
    if (r2.threw) fail("solve-throws-after-a-rejected-plan", r2.what);
    else if (again != sol) fail("solve-differs-after-a-rejected-plan", "");
    CallResult r3 = guarded([&] { pb.checkSolutionValid(sol); });
    if (r3.threw) fail("valid-plan-rejected-by-checkSolutionValid", r3.what);
  }
  // rounded assignment
  Transportation1d pb2(in.u, in.v, in.s, in.d);
  if (in.balance) pb2.balanceDemand();
  std::vector<int> as;
  try {
    as = pb2.assign();
  } catch (const std::exception &e) {
    fail("assign-throws", e.what());
    return out;
  }
  if ((int)as.size() != n) { fail("assignment-size", std::to_string(as.size()) + " entries for " + std::to_string(n) + " sources"); return out; }
  bool hasZero = false;
  long long totalDemand = 0;
  for (auto x : d) totalDemand += x;
  for (int i = 0; i < n; ++i) {
    if (in.s[i] == 0) hasZero = true;
    if (as[i] < 0 || as[i] >= m) { fail("assignment-out-of-range", "source " + std::to_string(i) + " -> " + std::to_string(as[i])); return out; }
    // (when no sink has any demand the clause cannot be met by anyone: outside the property's domain)
    if (d[as[i]] <= 0 && totalDemand > 0) { fail("assignment-to-zero-demand-sink", "source " + std::to_string(i)); return out; }
  }
  for (int j = 0; j < m; ++j) if (d[j] == 0) hasZero = true;
  // unsplit sources go to the plan's sink (or one at the same position)
  for (int i = 0; i < n; ++i) {
    if (in.s[i] == 0) continue;
    int only = -1, cnt = 0;
    for (auto [si, sj, a] : sol) if (si == i) { only = sj; ++cnt; }
    if (cnt == 1 && as[i] != only && in.v[as[i]] != in.v[only])
      fail("unsplit-source-sent-elsewhere", "source " + std::to_string(i) + " plan sink " + std::to_string(only) + " assigned " + std::to_string(as[i]));
  }
  if (hasZero) ctx.count("instances_with_zero_supply_or_demand");
  if (sol.size() > (size_t)n || hasZero) ctx.nontrivial(vf::fnv(enc(in0)));
  return out;
}

int main(int argc, char **argv) {
  vf::Opts o = vf::parseOpts(argc, argv);
  bool th = o.thorough();
  vf::Check<Inst> c;
  c.property = "C14";
  c.level = "exploration";
  c.rule =
      "all instances with 1..3 sources and 1..3 sinks (thorough: up to 4x3 / 3x4 on a reduced value set), positions in {0,1,3} (thorough {0,1,2,4}), unsorted with "
      "duplicates (plus 3x4 on {0,2,4,5} with quantities 1..2), supplies and demands in {0..3} (zeros included), total supply <= total demand, plus the over-full ones after balanceDemand(); "
      "plus long rows of 8..40 sinks with one or two sources in the first, middle and last gaps; plus the same shapes scaled/shifted to positions ~1e8, and small shapes with quantities multiplied by 1e9 (totals beyond 2^31); after every solve a user-supplied invalid plan is rejected by checkSolutionValid and solve() is asked again on the same object; oracle: plan validity by direct sums, cost equal to the non-crossing-matching DP optimum, "
      "assign(): one in-range positive-demand sink per source and the unsplit-source rule; built with ASan/UBSan/libstdc++ assertions so any "
      "out-of-bounds access kills the worker; non-trivial = a source is split or a zero supply/demand is present";
  c.bounds = th ? "<=4x3, values {0..3}" : "<=3x3";
  c.enumerate = [=](const std::function<void(const Inst &)> &f) {
    auto gen = [&](int n, int m, std::vector<long long> pos, int maxQ, long long scale, long long shift, bool onlyBalanced, int minQ = 0) {
      std::vector<int> radix;
      for (int i = 0; i < n + m; ++i) radix.push_back(pos.size());
      for (int i = 0; i < n + m; ++i) radix.push_back(maxQ - minQ + 1);
      for (vf::Odometer od(radix); !od.done; od.next()) {
        Inst in;
        in.scale = scale; in.shift = shift;
        long long ts = 0, td = 0;
        for (int i = 0; i < n; ++i) in.u.push_back(pos[od.v[i]]);
        for (int j = 0; j < m; ++j) in.v.push_back(pos[od.v[n + j]]);
        for (int i = 0; i < n; ++i) { in.s.push_back(minQ + od.v[n + m + i]); ts += minQ + od.v[n + m + i]; }
        for (int j = 0; j < m; ++j) { in.d.push_back(minQ + od.v[2 * n + m + j]); td += minQ + od.v[2 * n + m + j]; }
        if (ts <= td) { in.balance = 0; f(in); }
        else if (!onlyBalanced) { in.balance = 1; f(in); }
      }
    };
    std::vector<long long> P = th ? std::vector<long long>{0, 1, 2, 4} : std::vector<long long>{0, 1, 3};
    for (int n = 1; n <= 3; ++n)
      for (int m = 1; m <= 3; ++m) {
        if (n == 3 && m == 3 && !th) { gen(3, 3, {0, 2}, 3, 1, 0, false); gen(3, 3, P, 2, 1, 0, true); continue; }
        gen(n, m, P, 3, 1, 0, false);
      }
    // three sources x four sinks on four positions with unequal gaps, supplies/demands 1..2 (a source straddling a sink boundary)
    gen(3, 4, {0, 2, 4, 5}, 2, 1, 0, true, 1);
    // quantities (cell areas) beyond 2^31: the same small shapes with supplies and demands multiplied by 1e9 (totals of several 1e9)
    {
      auto genQ = [&](int n, int m, std::vector<long long> pos, long long q) {
        gen(n, m, pos, 3, 1, 0, true, 0);
        (void)q;
      };
      (void)genQ;
      std::vector<long long> pos = {0, 1, 3};
      for (int n = 1; n <= 2; ++n)
        for (int m = 1; m <= 3; ++m) {
          std::vector<int> radix;
          for (int i = 0; i < n + m; ++i) radix.push_back(pos.size());
          for (int i = 0; i < n + m; ++i) radix.push_back(4);
          for (vf::Odometer od(radix); !od.done; od.next()) {
            Inst in;
            in.scale = 1; in.shift = 0; in.balance = 0; in.qscale = 1000000000LL;
            long long ts = 0, td = 0;
            for (int i = 0; i < n; ++i) in.u.push_back(pos[od.v[i]]);
            for (int j = 0; j < m; ++j) in.v.push_back(pos[od.v[n + j]]);
            for (int i = 0; i < n; ++i) { in.s.push_back(od.v[n + m + i]); ts += od.v[n + m + i]; }
            for (int j = 0; j < m; ++j) { in.d.push_back(od.v[2 * n + m + j]); td += od.v[2 * n + m + j]; }
            if (ts <= td) f(in);
          }
        }
    }
    // long rows: 17..40 sinks (a search over the sinks that is right on three or four of them can be wrong on eighteen), one or
    // two sources in the first, middle and last gaps, nearer to the left sink / in the middle / nearer to the right one
    for (int M : {8, 17, 18, 19, 24, 40})
      for (int dpat = 0; dpat < 3; ++dpat) {
        std::vector<long long> v, d;
        for (int j = 0; j < M; ++j) { v.push_back(10LL * j); d.push_back(dpat == 0 ? 1 : (dpat == 1 ? 1 + j % 2 : (j % 3 == 1 ? 0 : 2))); }
        std::vector<long long> srcPos;
        for (int g : {0, M / 2, M - 2})
          for (int off : {1, 5, 9}) srcPos.push_back(10LL * g + off);
        srcPos.push_back(10LL * (M - 2) + 4);
        srcPos.push_back(10LL * (M - 2) + 6);
        srcPos.push_back(10LL * (M - 1) + 3);  // beyond the last sink
        srcPos.push_back(-4);                   // before the first sink
        for (size_t a = 0; a < srcPos.size(); ++a)
          for (int sa = 1; sa <= 2; ++sa) {
            Inst in; in.scale = 1; in.shift = 0; in.balance = 0;
            in.v = v; in.d = d; in.u = {srcPos[a]}; in.s = {sa};
            f(in);
            for (size_t b = a; b < srcPos.size(); ++b)
              for (int sb = 1; sb <= 2; ++sb) {
                Inst in2 = in;
                in2.u.push_back(srcPos[b]); in2.s.push_back(sb);
                f(in2);
              }
          }
      }
    // scaled copies as produced by the rough legalizer's 1e8 factor
    gen(2, 2, {0, 1, 3}, 3, 33333333, 0, false);
    gen(3, 2, {0, 1, 3}, 2, 33333333, 5, false);
    gen(2, 3, {0, 1, 3}, 2, 25000000, -100000000, false);
    if (th) {
      gen(3, 4, {0, 1, 3, 4}, 2, 1, 0, true, 1);
      gen(3, 4, {0, 2, 3, 5}, 2, 1, 0, true, 1);
      gen(4, 3, {0, 2, 4, 5}, 2, 1, 0, true, 1);
      gen(3, 4, {0, 3, 4, 6}, 2, 1, 0, false, 1);
      gen(4, 3, {0, 1, 3}, 2, 1, 0, false);
      gen(3, 4, {0, 1, 3}, 2, 1, 0, false);
      gen(4, 2, {0, 1, 2, 4}, 3, 1, 0, false);
      gen(2, 4, {0, 1, 2, 4}, 3, 1, 0, false);
    }
  };
  c.encode = enc;
  c.decode = dec;
  c.eval = eval;
  c.instanceTimeout = 20;
  c.deadline = th ? 3000 : 400;
  return vf::runCheck(o, c);
}
