// C07 — Placement calls return or throw; never crash or invoke undefined behaviour.
// The oracle is the fate of the worker process: a sanitizer report, an
// assertion abort, a signal or a hang while evaluating an instance is a
// violation attributed to that instance (see verif.hpp).  The same harness is
// built in three flavours: san (ASan+UBSan+libstdc++ assertions, asserts on),
// dbg (asserts on, README default) and rel (asserts off, the pinned suite's).
#include "gp.hpp"

using namespace vg;

static bool gThorough = false;
static std::string gPass;
static bool gSanThorough = false;

static Spec scaled(const Spec &s, long long sx, long long sy, long long tx, long long ty) {
  Spec r = s;
  for (auto &row : r.rows) {
    row.minX = row.minX * sx + tx; row.maxX = row.maxX * sx + tx;
    row.minY = row.minY * sy + ty; row.maxY = row.maxY * sy + ty;
  }
  for (auto &c : r.cells) {
    bool t = turned(c.orient);
    c.w *= t ? sy : sx;
    c.h *= t ? sx : sy;
    c.x = c.x * sx + tx;
    c.y = c.y * sy + ty;
  }
  for (auto &n : r.nets)
    for (auto &p : n.pins) {
      bool t = turned(r.cells[p[0]].orient);
      p[1] *= t ? sy : sx;
      p[2] *= t ? sx : sy;
    }
  return r;
}

static bool inMagnitudeBox(const Spec &s) {
  const long long LIM = 1LL << 22;
  for (auto &r : s.rows)
    if (std::llabs(r.minX) > LIM || std::llabs(r.maxX) > LIM || std::llabs(r.minY) > LIM || std::llabs(r.maxY) > LIM) return false;
  for (auto &c : s.cells) {
    if (std::llabs(c.x) > LIM || std::llabs(c.y) > LIM || c.w > LIM || c.h > LIM) return false;
    if ((long long)c.w * c.h >= (1LL << 31)) return false;
    if (std::llabs((long long)c.x + c.w) > LIM || std::llabs((long long)c.y + c.h) > LIM) return false;
  }
  return true;
}

static std::vector<Spec> shapeAlphabet() {
  std::vector<Spec> v;
  auto cell = [](int w, int h, int x, int y, bool fixed = false, bool obs = true) {
    CellSpec c; c.w = w; c.h = h; c.x = x; c.y = y; c.fixed = fixed; c.obstruction = obs; return c;
  };
  auto net = [](std::vector<std::array<int, 3>> pins) { NetSpec n; n.pins = pins; return n; };
  {  // single row, single cell, no nets
    Spec s; s.rows = {mkRow(0, 8, 0, 2, oN)}; s.cells = {cell(2, 2, 3, 0)}; v.push_back(s);
    Spec t = s; t.nets = {net({{0, 0, 0}})}; v.push_back(t);                     // degree-1 net
    Spec u = s; u.nets = {net({{0, 0, 0}, {0, 2, 2}, {0, 1, 1}})}; v.push_back(u);  // all pins on one cell
  }
  {  // several rows, zero-size fixed terminals with nets
    Spec s; s.rows = {mkRow(0, 12, 0, 2, oN), mkRow(0, 12, 1, 2, oFS), mkRow(0, 12, 2, 2, oN)};
    s.cells = {cell(2, 2, 0, 0), cell(3, 2, 1, 2), cell(0, 0, -5, 3, true), cell(0, 0, 20, 1, true)};
    s.nets = {net({{0, 0, 0}, {2, 0, 0}}), net({{1, 1, 1}, {3, 0, 0}, {0, 2, 2}}), net({{2, 0, 0}, {3, 0, 0}})};
    v.push_back(s);
    Spec t = s;  // every cell fixed but one
    t.cells[1].fixed = true;
    v.push_back(t);
    Spec u = s;  // rows fully covered by obstructions
    u.cells.push_back(cell(14, 8, -1, -1, true, true));
    v.push_back(u);
    Spec w = s;  // tall cell consuming all rows
    w.cells.push_back(cell(12, 6, 0, 0));
    v.push_back(w);
    Spec x = s;  // over-full
    for (int i = 0; i < 5; ++i) x.cells.push_back(cell(9, 2, i, 0));
    v.push_back(x);
    Spec y = s;  // exactly full rows
    y.cells = {cell(12, 2, 0, 0), cell(6, 2, 0, 0), cell(6, 2, 3, 3), cell(4, 2, 0, 0), cell(4, 2, 0, 0), cell(4, 2, 9, 9)};
    y.nets = {net({{0, 0, 0}, {5, 1, 1}}), net({{1, 0, 0}, {2, 0, 0}, {3, 0, 0}, {4, 1, 0}})};
    v.push_back(y);
    Spec z = s;  // zero-area movable cell next to a normal one
    z.cells.push_back(cell(0, 2, 1, 0));
    v.push_back(z);
  }
  {  // wide rows for global placement, many cells on one spot
    Spec s; s.rows = {mkRow(0, 40, 0, 4, oN), mkRow(0, 40, 1, 4, oFS), mkRow(0, 40, 2, 4, oN), mkRow(0, 40, 3, 4, oFS)};
    for (int i = 0; i < 6; ++i) s.cells.push_back(cell(1 + i % 3, 4, 20, 8));
    s.cells.push_back(cell(3, 8, 20, 8));
    s.cells.push_back(cell(6, 6, 10, 5, true, true));
    s.nets = {net({{0, 0, 0}, {1, 1, 1}, {2, 0, 2}, {7, 3, 3}}), net({{3, 0, 0}, {4, 0, 0}}), net({{5, 1, 1}, {6, 2, 7}, {0, 0, 0}})};
    v.push_back(s);
  }
  {  // many free row segments sharing their y (sorting predicates over segments see ties; more than 16 elements)
    Spec s; s.rows = {mkRow(0, 80, 0, 2, oN)};
    for (int k = 0; k < 19; ++k) s.cells.push_back(cell(1, 2, 4 * k + 3, 0, true, true));
    for (int k = 0; k < 8; ++k) s.cells.push_back(cell(1 + k % 2, 2, 10 * k, 0));
    s.nets = {net({{19, 0, 0}, {26, 1, 1}}), net({{20, 0, 0}, {22, 0, 0}, {24, 1, 1}}), net({{21, 0, 1}, {25, 0, 0}})};
    v.push_back(s);
    Spec t;  // 20 rows cut in two by a fixed column
    for (int r = 0; r < 20; ++r) t.rows.push_back(mkRow(0, 20, r, 2, r % 2 ? oFS : oN));
    t.cells.push_back(cell(2, 40, 9, 0, true, true));
    for (int k = 0; k < 10; ++k) t.cells.push_back(cell(1 + k % 3, 2, (7 * k) % 18, (6 * k) % 38));
    t.nets = {net({{1, 0, 0}, {10, 1, 1}}), net({{2, 0, 0}, {5, 0, 0}, {8, 1, 1}}), net({{3, 0, 1}, {6, 0, 0}}), net({{4, 0, 0}, {7, 0, 0}, {9, 0, 0}})};
    v.push_back(t);
    Spec u = t;  // the same cut in three
    u.cells.push_back(cell(1, 40, 15, 0, true, true));
    v.push_back(u);
  }
  for (int density : {1, 2}) {  // unit cells filling the rows exactly, and twice over (infeasible density)
    Spec s; s.rows = {mkRow(0, 8, 0, 1, oN), mkRow(0, 8, 1, 1, oFS)};
    for (int k = 0; k < 16 * density; ++k) s.cells.push_back(cell(1, 1, (3 * k) % 8, k % 2));
    s.nets = {net({{0, 0, 0}, {5, 0, 0}}), net({{1, 0, 0}, {9, 0, 0}, {15, 0, 0}})};
    v.push_back(s);
    Spec t; t.rows = {mkRow(0, 4, 0, 1, oN), mkRow(0, 4, 1, 1, oN), mkRow(0, 4, 2, 1, oN), mkRow(0, 4, 3, 1, oN)};
    for (int k = 0; k < 16 * density; ++k) t.cells.push_back(cell(1, 1, 2, 2));
    t.nets = {net({{0, 0, 0}, {7, 0, 0}}), net({{3, 0, 0}, {11, 0, 0}, {12, 0, 0}})};
    v.push_back(t);
  }
  return v;
}

static void enumerateAll(const std::function<void(const Spec &)> &f) {
  struct Mag { long long sx, sy, tx, ty; };
  std::vector<Mag> mags = {{1, 1, 0, 0}, {1 << 10, 1 << 10, 0, 0}, {1 << 14, 1 << 14, 0, 0}, {1 << 20, 1, 0, 0}, {1, 1 << 20, 0, 0},
                           {1 << 19, 1 << 8, 0, 0}, {1, 1, (1LL << 22) - 64, -(1LL << 22) + 64}, {1 << 8, 1 << 8, -(1LL << 22) + 40000, (1LL << 21)}};
  std::vector<ParamAlt> menu = gpParamMenu(0);
  for (auto &pa : detailedParamMenu()) menu.push_back(pa);
  for (auto &pa : legalizeParamMenu()) menu.push_back(pa);
  auto emit = [&](const Spec &base, bool allMags, bool allStages, bool devs) {
    // the shapes with 16+ unit cells or 20+ rows are explored unscaled and at 2^14 only: the anisotropic magnitudes turn
    // them into grids of a million bins, which terminate but take minutes (slow, not a violation)
    bool big = base.cells.size() >= 12 || base.rows.size() >= 20;
    for (size_t mi = 0; mi < mags.size(); ++mi) {
      if (big && mi != 0 && mi != 2) continue;
      if (!allMags && mi != 0 && mi != 2 && mi != 5) continue;
      Spec m = scaled(base, mags[mi].sx, mags[mi].sy, mags[mi].tx, mags[mi].ty);
      if (!inMagnitudeBox(m)) continue;
      for (int stage = 0; stage < 4; ++stage) {
        if (!allStages && stage == 3) continue;
        Spec s = m;
        s.aux = stage;
        f(s);
        if (devs && (mi == 0 || mi == 5)) {
          for (auto &pa : menu) {
            bool gpField = pa.field >= 20;
            if (gpField && stage != 0 && stage != 3) continue;
            if (!gpField && stage == 0) continue;
            Spec d = s;
            d.devs.push_back({pa.field, pa.value});
            f(d);
          }
          for (int e : {1, 9}) { Spec d = s; d.effort = e; f(d); }
        }
      }
    }
  };
  if (gPass == "memcheck") {
    // valgrind memcheck pass (uses of uninitialised memory are undefined behaviour too): degenerate shapes at three magnitudes, every stage
    for (auto &s : shapeAlphabet()) emit(s, false, true, false);
    return;
  }
  // 1. hand-written degenerate shapes: every magnitude, every stage, every single parameter deviation
  for (auto &s : shapeAlphabet()) emit(s, true, true, true);
  // 1b. medium-size family (12..40 cells on 4..10 rows): every 24th member (thorough: 8th), every stage, unscaled and at 2^14;
  //     every third of those also with multi-row reordering and wide windows
  {
    MediumCfg mc;
    mc.stride = gThorough ? 8 : 24;
    int k = 0;
    enumerateMedium(mc, [&](const Spec &s) {
      emit(s, false, true, false);
      if (k++ % 3 == 0) {
        Spec v = s;
        v.devs.push_back({F_reorderingMaxNbCells, 4});
        v.devs.push_back({F_reorderingNbRows, 2});
        v.devs.push_back({F_shiftMaxNbCells, 30});
        v.devs.push_back({F_squareReoptSize, 3});
        for (int stage : {0, 2, 3}) { Spec t = v; t.aux = stage; f(t); }
      }
    });
  }
  // 2. global-placement alphabet
  {
    int i = 0;
    enumerateGpBase(gThorough ? 1 : 0, [&](const Spec &s, const GpShape &) {
      bool pick = gThorough ? true : (gSanThorough ? (i % 2 == 0) : (i % 5 == 0));
      ++i;
      if (pick) emit(s, gThorough, true, gThorough && (i % 16 == 1));
    });
  }
  // 3. tiny-circuit alphabet (legalization / detailed placement shortcuts: split rows, full rows, tall cells)
  {
    Cfg a;
    a.rhs = {2};
    a.minCells = 2;
    a.maxCells = 3;
    a.pointLevel = gThorough ? 1 : 0;
    a.diagonalPositionsOnly = !gThorough;
    a.thoroughLayouts = gThorough;
    DevMenu dm;
    dm.params = {{F_reorderingMaxNbCells, 3}, {F_reorderingMaxNbCells, 2}, {F_shiftMaxNbCells, 2}};
    dm.efforts = {};
    enumerateBase(a, [&](const Spec &base, const Layout &l, int rh) {
      Spec b = base;
      auto nm = netMenu(b, 0);
      b.nets = nm[std::min<size_t>(nm.size() - 1, 2)];
      for (int stage : {1, 2}) {
        Spec s = b; s.aux = stage; f(s);
        Spec r = s; r.devs = {{F_reorderingMaxNbCells, 3}, {F_reorderingNbRows, 2}}; f(r);
        Spec big = scaled(s, 1 << 19, 1 << 8, 0, 0);
        if (inMagnitudeBox(big)) f(big);
      }
      if (gThorough)
        enumerateDeviations(b, l, rh, dm, [&](const Spec &s1) {
          Spec s = s1;
          if (s1.cells.size() != base.cells.size() && s1.cells[0].fixed && !base.cells[0].fixed)
            for (auto &nt : s.nets) for (auto &p : nt.pins) p[0] += 1;
          s.aux = 2;
          f(s);
        });
    });
  }
}

static vf::Verdicts eval(const Spec &s, vf::Ctx &ctx) {
  vf::Verdicts out;
  ColoquinteParameters params = makeParams(s);
  if (!paramsAccepted(params)) { ctx.count("skipped_rejected_params"); return out; }
  Circuit c = build(s);
  CallResult r = guarded([&] {
    switch (s.aux) {
      case 0: c.placeGlobal(params); break;
      case 1: c.legalize(params); break;
      case 2: c.placeDetailed(params); break;
      default: c.placeGlobal(params); c.placeDetailed(params); break;
    }
  });
  if (r.threw) ctx.count("threw");
  else ctx.count("returned");
  if (r.threw && !r.stdExc) ctx.count("non_std_exceptions");
  ctx.nontrivial(hashSpec(s));
  return out;
}

int main(int argc, char **argv) {
  vf::Opts o = vf::parseOpts(argc, argv);
  gPass = o.pass;
  // the sanitizer pass is about ten times slower: in the thorough tier it explores the quick alphabet plus half of the
  // global-placement alphabet; the dbg and rel passes explore the full thorough alphabet
  gThorough = o.thorough() && o.pass != "san";
  gSanThorough = o.thorough() && o.pass == "san";
  vf::Check<Spec> c;
  c.property = "C07";
  c.level = "exploration";
  c.rule =
      "shape alphabet (single row/cell, no nets, degree-1 nets, all pins on one cell, zero-size terminals, all fixed but one, rows covered by obstructions, "
      "tall cell consuming all rows, over-full, exactly full, zero-area movable cell, clumped wide design) + global-placement alphabet + tiny-circuit "
      "alphabet, each x magnitude variants (scale up to 2^20 per axis with area < 2^31, translation to +-2^22) x stages {placeGlobal, legalize, "
      "placeDetailed, place} x every single parameter deviation inside the moderate box; one pass per build flavour (" VERIF_FLAVOUR
      "); oracle = worker fate (sanitizer report, assertion, signal, hang); every case is distinct and counts as non-trivial (it runs a placement)";
  c.bounds = gThorough ? "full alphabets" : "1/5 of the GP alphabet, reduced magnitudes";
  c.assumptions = {"UBSan groups: gcc default 'undefined' (no float-cast-overflow / float-divide-by-zero)",
                   "termination is decided up to the per-instance limit (10 s, 100 s on the solitary re-run)"};
  c.enumerate = enumerateAll;
  c.encode = [](const Spec &s) { return encode(s); };
  c.decode = [](const std::string &s) { return decode(s); };
  c.eval = eval;
  c.instanceTimeout = gPass == "memcheck" ? 300 : 10;
  c.deadline = gThorough ? 3000 : 400;
  return vf::runCheck(o, c);
}
