// C10 — Busy-circuit protocol and exception safety of placement calls.
// Fault-point enumeration: for every (circuit, stage, parameter set) the run is
// executed once to count its K callback invocations, then once per index k
// with the callback throwing at k; inside every callback every guarded setter
// is attempted; after the call ended (by any route) every setter, check() and
// a further placement call are exercised and compared with a fresh object.
#include "gp.hpp"

using namespace vg;

enum Stage { S_GLOBAL = 0, S_LEGALIZE = 1, S_DETAILED = 2 };
static const char *stageName[3] = {"placeGlobal", "legalize", "placeDetailed"};

static CallResult runStage(Circuit &c, int stage, const ColoquinteParameters &p, const std::optional<PlacementCallback> &cb) {
  return guarded([&] {
    if (stage == S_GLOBAL) c.placeGlobal(p, cb);
    else if (stage == S_LEGALIZE) c.legalize(p, cb);
    else c.placeDetailed(p, cb);
  });
}

struct Thrown : std::runtime_error { Thrown() : std::runtime_error("callback fault") {} };

// the seven guarded setters, with arguments that would change the circuit if accepted
static int trySetters(Circuit &c, std::string &which) {
  int accepted = 0;
  int n = c.nbCells();
  auto t = [&](const char *name, const std::function<void()> &f) {
    CallResult r = guarded(f);
    if (!r.threw) { ++accepted; which += std::string(name) + " "; }
  };
  t("addNet", [&] { c.addNet({0}, {0}, {0}); });
  t("setNets", [&] { c.setNets({0}, {}, {}, {}); });
  t("setRows", [&] { c.setRows({}); });
  t("setupRows", [&] { c.setupRows(Rectangle(0, 100, 0, 100), 5); });
  t("setCellIsFixed", [&] { c.setCellIsFixed(std::vector<bool>(n, true)); });
  t("setCellIsObstruction", [&] { c.setCellIsObstruction(std::vector<bool>(n, false)); });
  t("setCellRowPolarity", [&] { c.setCellRowPolarity(std::vector<CellRowPolarity>(n, CellRowPolarity::SE)); });
  return accepted;
}

// after the call: value-preserving setters on the object itself, state-changing ones on a copy
static std::string settersAfter(Circuit &c) {
  std::string refused;
  auto t = [&](const char *name, const std::function<void()> &f) {
    CallResult r = guarded(f);
    if (r.threw) refused += std::string(name) + " ";
  };
  t("setRows", [&] { c.setRows(std::vector<Row>(c.rows())); });
  t("setCellIsFixed", [&] { c.setCellIsFixed(std::vector<bool>(c.cellIsFixed())); });
  t("setCellIsObstruction", [&] { c.setCellIsObstruction(std::vector<bool>(c.cellIsObstruction())); });
  t("setCellRowPolarity", [&] { c.setCellRowPolarity(std::vector<CellRowPolarity>(c.cellRowPolarity())); });
  t("setNets", [&] {
    c.setNets(std::vector<int>(c.netLimits_), std::vector<int>(c.pinCells_), std::vector<int>(c.pinXOffsets_),
              std::vector<int>(c.pinYOffsets_), std::vector<float>(c.netWeights_));
  });
  Circuit cc = c;
  t("addNet", [&] { cc.addNet({0}, {0}, {0}); });
  t("setupRows", [&] { cc.setupRows(Rectangle(0, 100, 0, 100), 5); });
  return refused;
}

static vf::Verdicts eval(const Spec &s, vf::Ctx &ctx) {

  vf::Verdicts out;
  std::set<std::string> seen;
  auto add = [&](const std::string &cls, const std::string &msg) {
    if (seen.insert(cls).second) out.push_back({cls, msg + " | " + describe(s)});
  };
  int stage = s.aux;
  ColoquinteParameters params = makeParams(s);
  bool rejected = !paramsAccepted(params);
  // dry run: count callbacks, learn the outcome without faults
  int K = 0;
  bool legalizeFailsByItself = false;
  {
    Circuit c = build(s);
    Snapshot before = snapshot(c);
    CallResult r = runStage(c, stage, params, PlacementCallback([&](PlacementStep) { ++K; }));
    if (r.threw) {
      ctx.count("dry_runs_that_throw");
      if (!r.stdExc) add("non-std-exception", r.what);
      if (stage != S_GLOBAL && K == 0) legalizeFailsByItself = true;
      if (rejected && K > 0) add("callback-invoked-with-rejected-parameters", r.what);
      if ((rejected || (stage == S_LEGALIZE && K == 0)) && !samePlacement(before, snapshot(c)))
        add("failed-call-changed-placement", std::string(stageName[stage]) + " threw '" + r.what + "' but moved cells to " + placementStr(c));
    } else if (rejected) {
      add("rejected-parameters-accepted", stageName[stage]);
    }
  }
  ctx.count("callbacks_in_dry_runs", K);
  // k = -1: no fault; k in [0,K): callback throws at index k
  for (int k = -1; k < K; ++k) {
    Circuit c = build(s);
    Snapshot before = snapshot(c);
    int idx = 0;
    bool legalSeen = false;
    std::optional<Circuit> kept;
    auto cb = PlacementCallback([&](PlacementStep st) {
      // structural setters must be refused and change nothing
      Snapshot in = snapshot(c);
      std::string which;
      int acc = trySetters(c, which);
      if (acc > 0) add("setter-accepted-during-call", std::string(stageName[stage]) + " callback #" + std::to_string(idx) + ": " + which);
      Snapshot after = snapshot(c);
      if (!diffStructure(in, after).empty() || !samePlacement(in, after))
        add("refused-setter-changed-state", std::string(stageName[stage]) + " callback #" + std::to_string(idx) + ": " + diffStructure(in, after));
      if (st == PlacementStep::Detailed) legalSeen = true;
      // "keep the best intermediate placement": a copy of the circuit taken inside the callback (at the fault index, or at the
      // first callback of a run without fault)
      if (idx == std::max(k, 0)) kept = c;
      if (idx++ == k) throw Thrown();
    });
    CallResult r = runStage(c, stage, params, cb);
    ctx.count("fault_runs");
    if (k >= 0 && !r.threw) add("callback-exception-swallowed", std::string(stageName[stage]) + " fault at #" + std::to_string(k));
    // the call must end by the callback's exception (a wrapper that keeps its message is fine); an exception with another
    // message means the library raised an error of its own while the callback's fault was in flight
    if (k >= 0 && r.threw && r.what.find("callback fault") == std::string::npos) add("callback-exception-replaced", r.what);
    // the call has ended: modifications are accepted again, the circuit is consistent
    std::string refused = settersAfter(c);
    if (!refused.empty())
      add(r.threw ? "setter-refused-after-call-threw" : "setter-refused-after-call-returned",
          std::string(stageName[stage]) + (k >= 0 ? " fault at #" + std::to_string(k) : std::string(r.threw ? " threw '" + r.what + "'" : " returned")) + ": " + refused);
    CallResult chk = guarded([&] { c.check(); });
    if (chk.threw) add("check-fails-after-call", chk.what);
    Snapshot after = snapshot(c);
    std::string d = diffStructure(before, after);
    if (!d.empty()) add("structure-changed:" + d, stageName[stage]);
    if (r.threw && stage != S_GLOBAL) {
      if (k < 0 || legalizeFailsByItself) {
        // the legalization itself failed: placement exactly as before
        if (!samePlacement(before, after)) add("failed-legalization-changed-placement", placementStr(c));
      } else {
        // fault after a successful legalization: untouched input or a legal placement
        if (!samePlacement(before, after) && !legality(c).empty())
          add("fault-left-illegal-placement", "fault at #" + std::to_string(k) + ": " + placementStr(c) + " (" + legality(c) + ")");
      }
    }
    // the copy kept from inside the callback is a circuit of its own: once a placement call on it has ended, it accepts
    // modifications like any other
    if (kept) {
      for (int next = 0; next < 3; ++next) {
        Circuit a = *kept;
        ColoquinteParameters ok(3, 0);
        ok.global.maxNbSteps = 3;
        CallResult ra = runStage(a, next, ok, {});
        std::string ref3 = settersAfter(a);
        if (!ref3.empty())
          add(ra.threw ? "setter-refused-after-call-threw" : "setter-refused-after-call-returned",
              std::string("copy taken inside a ") + stageName[stage] + " callback, then " + stageName[next] + ": " + ref3);
        ctx.count("follow_up_calls_on_copies_taken_in_callbacks");
      }
    }
    // a further placement call behaves as on a fresh object with the same public state
    for (int next = 0; next < 3; ++next) {
      Circuit a = c;
      Spec s2 = s;
      Circuit fresh = build(s);
      fresh.setCellX(c.cellX());
      fresh.setCellY(c.cellY());
      fresh.setCellOrientation(c.cellOrientation());
      fresh.hasCellSizeUpdate_ = false;
      ColoquinteParameters ok(3, 0);
      ok.global.maxNbSteps = 3;
      CallResult ra = runStage(a, next, ok, {});
      CallResult rf = runStage(fresh, next, ok, {});
      ctx.count("follow_up_calls");
      if (ra.threw != rf.threw || !samePlacement(snapshot(a), snapshot(fresh)))
        add("follow-up-call-differs-from-fresh-object", std::string(stageName[stage]) + " then " + stageName[next] + ": " +
                                                            (ra.threw ? "threw " + ra.what : placementStr(a)) + " vs fresh " +
                                                            (rf.threw ? "threw " + rf.what : placementStr(fresh)));
      std::string ref2 = settersAfter(a);
      if (!ref2.empty()) add(ra.threw ? "setter-refused-after-call-threw" : "setter-refused-after-call-returned", std::string("second call ") + stageName[next] + ": " + ref2);
    }
  }
  ctx.count("evaluations", K);  // one evaluation per fault point (the runner adds one for k=-1)
  if (K > 0) ctx.nontrivial(hashSpec(s));
  return out;
}

static void enumerateAll(bool thorough, const std::function<void(const Spec &)> &f) {
  std::vector<Spec> circuits;
  // feasible circuits of the global-placement alphabet
  for (auto &s : gpRepresentatives()) circuits.push_back(s);
  // infeasible: more cell area than rows
  {
    Spec s;
    s.rows = {mkRow(0, 9, 0, 2, oN), mkRow(0, 9, 1, 2, oFS)};
    for (int i = 0; i < 4; ++i) { CellSpec c; c.w = 5; c.h = 2; c.x = i; c.y = 0; s.cells.push_back(c); }
    addNets(s, 2);
    circuits.push_back(s);
    Spec t = s;  // infeasible because of a polarity nobody can satisfy
    t.cells.resize(2);
    t.nets.clear();
    addNets(t, 1);
    t.cells[0].w = 2; t.cells[1].w = 2;
    t.cells[1].polarity = 4;  // SE: no S/FS... rows are N and FS, fine; make both rows N
    t.rows[1].orient = oN;
    circuits.push_back(t);
  }
  // infeasible for a degenerate reason: a movable cell of height 0 (fits no row) among ordinary cells that legalization
  // would move
  for (int badH : {0}) {
    Spec s;
    s.rows = {mkRow(0, 12, 0, 2, oN), mkRow(0, 12, 1, 2, oFS)};
    for (int i = 0; i < 4; ++i) { CellSpec c; c.w = 2; c.h = 2; c.x = 1 + i; c.y = 1; s.cells.push_back(c); }
    CellSpec z; z.w = 2; z.h = badH; z.x = 5; z.y = 0;
    s.cells.insert(s.cells.begin() + 2, z);
    addNets(s, 1);
    circuits.push_back(s);
  }
  if (thorough) {
    int i = 0;
    enumerateGpBase(0, [&](const Spec &s, const GpShape &) { if (i++ % 7 == 0) circuits.push_back(s); });
  }
  std::vector<std::vector<ParamDev>> paramSets = {
      {{F_maxNbSteps, 3}},                              // valid, short
      {{F_maxNbSteps, 8}, {F_reorderingMaxNbCells, 3}},  // valid, more callbacks
      {{F_maxNbSteps, 3}, {F_orderingWidth, 5.0}},       // rejected by legalization.check
      {{F_maxNbSteps, -1}},                              // rejected by global.check
      {{F_maxNbSteps, 3}, {F_nbPasses, -1}},             // rejected by detailed.check
      {{F_maxNbSteps, 3}, {F_nbPasses, 0}},              // valid corner: no optimisation pass
      {{F_maxNbSteps, 2}, {F_nbPasses, 1}, {F_shiftMaxNbCells, 0}, {F_nbInitialSteps, 1}},  // valid corners
  };
  for (auto &c : circuits)
    for (int stage = 0; stage < 3; ++stage)
      for (auto &ps : paramSets) {
        Spec s = c;
        s.devs = ps;
        s.aux = stage;
        f(s);
      }
}

int main(int argc, char **argv) {
  vf::Opts o = vf::parseOpts(argc, argv);
  bool th = o.thorough() && o.pass != "san";  // the secondary sanitizer pass of the thorough tier uses the quick alphabet
  vf::Check<Spec> c;
  c.property = "C10";
  c.level = "fault_enumeration";
  c.rule =
      "for every (circuit in {4 feasible global-placement circuits, over-full, unsatisfiable polarity, a movable cell of height 0}(+1/7 of the GP alphabet in thorough) x stage in "
      "{placeGlobal, legalize, placeDetailed} x parameter set in {4 valid incl. the corners nbPasses=0 / shiftMaxNbCells=0 / nbInitialSteps=1, 3 rejected}): dry run counting K callbacks, then K+1 runs with the callback "
      "throwing at index k (none, 0..K-1); in every callback all seven guarded setters are attempted; after the call ended every setter, check() and each "
      "of the three stages as a follow-up call are exercised and compared with the same call on a fresh object; a copy of the circuit taken inside the callback is driven through each stage and must accept every setter afterwards; an evaluation = one fault point; "
      "non-trivial = the run has at least one callback";
  c.bounds = "all fault indices of every run; follow-up depth 2 calls";
  c.assumptions = {"the callback is the only fault source; allocation failure is not injected"};
  c.enumerate = [=](const std::function<void(const Spec &)> &f) { enumerateAll(th, f); };
  c.encode = [](const Spec &s) { return encode(s); };
  c.decode = [](const std::string &s) { return decode(s); };
  c.eval = eval;
  c.instanceTimeout = 300;
  c.deadline = th ? 3000 : 400;
  return vf::runCheck(o, c);
}
