// C04 — see engine/common/detailed.hpp (shared exploration of detailed placement)
#include "detailed.hpp"
#define RULE "same instance space as C02 with polarity promoted to a primary dimension (every tuple over ANY/SAME/OPPOSITE/NW/SE on 2..3 cells incl. 2-row cells, every row-orientation pattern of the layout list); oracle = orientation table written from the documentation of CellRowPolarity, evaluated after legalize (first callback), inside every Detailed callback, on return, in every state of the move graphs and pass graphs; ANY cells must keep their input orientation"

using namespace vd;
static bool gThorough = false;

int main(int argc, char **argv) {
  vf::Opts o = vf::parseOpts(argc, argv);
  gThorough = o.thorough() && o.pass != "san";  // the secondary sanitizer pass of the thorough tier uses the quick alphabet
  vf::Check<Spec> c;
  c.property = "C04";
  c.level = "model_checking";
  c.rule = RULE;
  c.bounds = gThorough ? "n<=4, pass depth 3, move graphs to fixpoint (cap 60000 states)" : "n<=3, pass depth 2, move graphs to fixpoint (cap 20000 states)";
  c.assumptions = {"DetailedPlacement/DetailedPlacer are copied to branch the search; every new state is re-derived by replaying its operation history on a fresh object and compared",
                   "rows of an instance are pairwise disjoint and of uniform height"};
  c.enumerate = [](const std::function<void(const Spec &)> &f) { enumerateDetailed(gThorough, M_C04, f); };
  c.encode = [](const Spec &s) { return encode(s); };
  c.decode = [](const std::string &s) { return decode(s); };
  c.eval = [](const Spec &s, vf::Ctx &ctx) { return evalDetailed(s, ctx, M_C04, gThorough); };
  c.primers = legalizationPrimers();
  c.instanceTimeout = 60;
  c.deadline = gThorough ? 3000 : 400;
  return vf::runCheck(o, c);
}
