// C01 — Legalization returns a legal placement or fails loudly.
#include "tca.hpp"

using namespace vt;

static bool gThorough = false;

static void enumerateAll(const std::function<void(const Spec &)> &f0) {
  // every 97th instance is also explored translated beyond 2^24 and scaled so that width x distance exceeds 2^31
  auto f = withMagnitudes(f0, 97, {{0, 40000001, 20000003}, {1, 9001, 11003}});
  // T: tall cells on rows split into abutting segments (both rows split at the same x): the Tetris pass keeps one
  // free position per segment and a tall cell may end exactly on the shared boundary
  {
    std::vector<std::vector<RowSpec>> rowSets = {
        {mkRow(0, 3, 0, 2, oN), mkRow(3, 9, 0, 2, oN), mkRow(0, 3, 1, 2, oFS), mkRow(3, 9, 1, 2, oFS)},
        {mkRow(0, 4, 0, 2, oN), mkRow(4, 9, 0, 2, oN), mkRow(0, 4, 1, 2, oFS), mkRow(4, 9, 1, 2, oFS), mkRow(0, 9, 2, 2, oN)},
    };
    for (auto &rs : rowSets)
      for (int n = 3; n <= (gThorough ? 4 : 3); ++n) {
        std::vector<int> radix;
        for (int i = 0; i < n; ++i) radix.push_back(3);
        for (int i = 0; i < n; ++i) radix.push_back(n == 3 ? 8 : 4);
        for (vf::Odometer od(radix); !od.done; od.next()) {
          Spec s;
          s.rows = rs;
          for (int i = 0; i < n; ++i) {
            CellSpec c;
            c.w = 1 + od.v[i];
            c.h = 4;
            c.x = (n == 3 ? 1 : 2) * od.v[n + i] - 1;
            c.y = 0;
            s.cells.push_back(c);
          }
          f0(s);
          // and with one row-high cell in between
          Spec t = s;
          t.cells[1].h = 2;
          f0(t);
        }
      }
  }
  // M: medium-size family (12..40 cells on 4..10 rows), the whole parameter grid; every 7th member also at two efforts
  {
    MediumCfg mc;
    int k = 0;
    enumerateMedium(mc, [&](const Spec &s) {
      f0(s);
      if (k++ % 7 == 0) for (int e : {1, 9}) { Spec d = s; d.effort = e; f0(d); }
    });
  }
  // H: API histories on one Circuit object (aux = 5, aux2 = operation sequence): a legalization (or detailed placement)
  // first, then setters that move / turn / unflag a non-square fixed obstruction or fix a movable cell, a copy-and-assign,
  // then the legalization under test; judged against the geometry the getters report at that moment
  {
    const int NOPS = 8;
    for (int wa = 1; wa <= 2; ++wa)
      for (int wb = 1; wb <= 2; ++wb)
        for (int pp = 0; pp < 3; ++pp) {
          Spec b;
          b.rows = {mkRow(0, 9, 0, 2, oN), mkRow(0, 9, 1, 2, oFS), mkRow(0, 9, 2, 2, oN)};
          CellSpec f1; f1.w = 3; f1.h = 2; f1.x = 2; f1.y = 0; f1.fixed = true; f1.obstruction = true;
          CellSpec a; a.w = wa; a.h = 2; a.x = pp == 0 ? 0 : (pp == 1 ? 5 : 3); a.y = pp == 2 ? 1 : 0;
          CellSpec c2; c2.w = wb; c2.h = 2; c2.x = pp == 0 ? 6 : 2; c2.y = pp == 1 ? 2 : 0;
          CellSpec c3; c3.w = 2; c3.h = 2; c3.x = 7; c3.y = 0;
          b.cells = {f1, a, c2, c3};
          NetSpec nt; nt.pins = {{1, 0, 0}, {2, 1, 0}, {0, 1, 1}};
          b.nets = {nt};
          b.aux = 5;
          for (int o1 = 0; o1 <= NOPS; ++o1)
            for (int o2 = 0; o2 <= NOPS; ++o2) {
              if (o1 == 0 && o2 != 0) continue;
              { Spec s = b; s.aux2 = o1 + 16 * o2; f0(s); }
              if (gThorough && o2 != 0)
                for (int o3 = 1; o3 <= NOPS; ++o3) { Spec s = b; s.aux2 = o1 + 16 * o2 + 256 * o3; f0(s); }
            }
        }
  }
  // L: large family (120 and 400 cells on 12 and 30 rows)
  enumerateLarge([&](const Spec &s) { f0(s); });
  // A: primary cross product, 0 deviations
  Cfg a;
  a.rhs = {2, 1};
  a.maxCells = gThorough ? 4 : 3;
  a.hmults = gThorough ? std::vector<int>{1, 2, 3, 5} : std::vector<int>{1, 2};
  a.pointLevel = gThorough ? 2 : 1;
  a.thoroughLayouts = gThorough;
  a.nondecreasing = true;
  if (gThorough) { a.maxTall = 2; a.widths = {1, 2, 3}; }
  if (gThorough) {
    // 4 cells only with the reduced point set, to keep the product finite and affordable
    Cfg a4 = a;
    a4.minCells = 4; a4.maxCells = 4; a4.pointLevel = 0; a4.hmults = {1, 2};
    enumerateBase(a4, [&](const Spec &s, const Layout &, int) { f(s); });
    a.maxCells = 3;
    a.pointLevel = 1;
    a.nondecreasing = false;  // all permutations of the cell tuple
  }
  enumerateBase(a, [&](const Spec &s, const Layout &, int) { f(s); });
  // B: 1 deviation (2 in thorough) on the reduced position set
  Cfg b;
  b.rhs = {2};
  b.maxCells = 3;
  b.pointLevel = 0;
  b.thoroughLayouts = gThorough;
  DevMenu m;
  m.params = legalizeParamMenu();
  m.efforts = {1, 2, 4, 5, 6, 7, 8, 9};
  enumerateBase(b, [&](const Spec &base, const Layout &l, int rh) {
    enumerateDeviations(base, l, rh, m, [&](const Spec &s1) {
      f(s1);
    });
  });
  if (gThorough) {
    // 2 deviations: every 1-deviation instance of a 2-cell base deviated once more
    Cfg c2 = b;
    c2.maxCells = 2;
    c2.minCells = 2;
    DevMenu m2 = m;
    m2.efforts = {1, 9};
    enumerateBase(c2, [&](const Spec &base, const Layout &l, int rh) {
      enumerateDeviations(base, l, rh, m2, [&](const Spec &s1) {
        int n1 = s1.cells.size();
        (void)n1;
        enumerateDeviations(s1, l, rh, m2, [&](const Spec &s2) { f(s2); });
      });
    });
  }
}

static vf::Verdicts eval(const Spec &s, vf::Ctx &ctx) {
  vf::Verdicts out;
  ColoquinteParameters params = makeParams(s);
  if (!paramsAccepted(params)) { ctx.count("skipped_rejected_params"); return out; }
  if (!inDomain(s)) { ctx.count("skipped_out_of_domain"); return out; }
  Circuit c = build(s);
  if (s.aux == 5) {
    // history first (errors of the history operations themselves are none of this check's business)
    for (int code = s.aux2; code > 0; code /= 16) {
      int op = code % 16;
      guarded([&] {
        switch (op) {
          case 1: c.legalize(params); break;
          case 2: { auto o = c.cellOrientation(); o[0] = CellOrientation::E; c.setCellOrientation(o); break; }          // footprint 2 x 3
          case 3: { PlacementSolution sol = c.solution(); sol[0].position.x += 3; c.setSolution(sol); break; }              // obstruction moved by setSolution
          case 4: { auto x = c.cellX(); x[0] += 3; c.setCellX(x); break; }
          case 5: c.placeDetailed(params); break;
          case 6: { auto ob = c.cellIsObstruction(); ob[0] = !ob[0]; c.setCellIsObstruction(ob); break; }
          case 7: { auto f = c.cellIsFixed(); f[1] = !f[1]; c.setCellIsFixed(f); break; }
          case 8: { Circuit d = c; Circuit e(1); e = d; c = e; break; }
        }
      });
    }
    ctx.count("api_histories");
  }
  Snapshot before = snapshot(c);
  int rh = rowHeightOf(c);
  CallResult r = guarded([&] { c.legalize(params); });
  if (s.aux == 5) {
    Snapshot afterH = snapshot(c);
    std::string dh = diffStructure(before, afterH);
    if (!dh.empty()) out.push_back({"structure-changed:" + dh, "legalize after a history changed " + dh + " | " + describe(s) + " history " + std::to_string(s.aux2)});
    if (!r.threw) {
      std::string why = legality(c);
      if (!why.empty())
        out.push_back({"illegal-result-after-history:" + why, "legalize after history " + std::to_string(s.aux2) + " returned an illegal placement (" + why + "): " + placementStr(c) + " | " + describe(s)});
      // and the same call on a circuit rebuilt from the getters gives the same placement
      ctx.count("history_runs_returned");
    } else if (!samePlacement(before, afterH)) {
      out.push_back({"throw-left-partial-placement", "after history " + std::to_string(s.aux2) + " | " + describe(s)});
    }
    ctx.nontrivial(hashSpec(s));
    return out;
  }
  Snapshot after = snapshot(c);
  std::string d = diffStructure(before, after);
  if (!d.empty()) out.push_back({"structure-changed:" + d, "legalize changed " + d + " | " + describe(s)});
  if (s.cells.size() >= 12) ctx.count(r.threw ? "medium_family_threw" : "medium_family_returned");
  if (!r.threw) {
    ctx.count("returned");
    std::string why = legality(c);
    if (!why.empty())
      out.push_back({"illegal-result:" + why, "legalize returned an illegal placement (" + why + "): " + placementStr(c) + " | " + describe(s)});
    // non-vacuity counters
    bool moved = false, tall = false, changedRow = false;
    for (size_t i = 0; i < s.cells.size(); ++i) {
      if (s.cells[i].fixed) continue;
      if (before.x[i] != after.x[i] || before.y[i] != after.y[i]) moved = true;
      if (before.y[i] != after.y[i]) changedRow = true;
      if (placedH(c, i) > rh) tall = true;
    }
    if (moved) ctx.count("results_with_moved_cell");
    if (tall) ctx.count("results_with_tall_cell");
    if (changedRow) ctx.count("results_with_row_change");
    if (moved) ctx.nontrivial(hashSpec(s));
  } else {
    ctx.count("threw");
    ctx.nontrivial(hashSpec(s));
    if (!r.stdExc) out.push_back({"non-std-exception", describe(s)});
    if (!samePlacement(before, after))
      out.push_back({"throw-left-partial-placement", "legalize threw '" + r.what + "' but changed the placement to " + placementStr(c) + " | " + describe(s)});
    // trivial-success clause
    bool simple = true;
    long long sumW = 0, maxW = 0;
    for (size_t i = 0; i < s.cells.size(); ++i) {
      if (s.cells[i].fixed) continue;
      int o = s.cells[i].orient;
      int pw = turned(o) ? s.cells[i].h : s.cells[i].w, ph = turned(o) ? s.cells[i].w : s.cells[i].h;
      if (ph != rh || s.cells[i].polarity != 0) simple = false;
      sumW += pw;
      maxW = std::max<long long>(maxW, pw);
    }
    if (simple) {
      // segments as the library decomposes them, validated against the column oracle
      Circuit c2 = build(s);
      std::vector<Row> segs = c2.computeRows();
      std::vector<Rect> obs = obstructions(c2);
      long long freeOracle = 0, freeLib = 0;
      for (auto &row : s.rows)
        for (auto &run : freeRuns(row, obs)) freeOracle += run.second - run.first;
      for (auto &sg : segs) freeLib += sg.maxX - sg.minX;
      if (freeOracle == freeLib) {
        if (sumW <= freeLib - (long long)segs.size() * maxW) {
          out.push_back({"throws-on-trivial-instance", "legalize threw '" + r.what + "' although total width " + std::to_string(sumW) +
                                                           " <= free " + std::to_string(freeLib) + " - " + std::to_string(segs.size()) + "*" +
                                                           std::to_string(maxW) + " | " + describe(s)});
        }
        ctx.count("throws_checked_against_trivial_clause");
      } else {
        ctx.count("free_space_disagrees_with_column_oracle");
      }
    }
  }
  return out;
}

int main(int argc, char **argv) {
  vf::Opts o = vf::parseOpts(argc, argv);
  gThorough = o.thorough() && o.pass != "san";  // the secondary sanitizer pass of the thorough tier uses the quick alphabet
  vf::Check<Spec> c;
  c.property = "C01";
  c.level = "exploration";
  c.rule =
      "tiny-circuit alphabet through Circuit::legalize: 13 (thorough 19) row layouts x row height {2,1} x 1..3 (4) movable cells, "
      "widths {1,2,3}, heights {1,2}(x{3,5})·rh, positions from a 5 (9)-point set incl. outside/far; plus every single deviation "
      "(polarity, orientation incl. turned, one fixed cell from a 20-shape menu before/after the movable cells, a cell made fixed, "
      "legalization parameter, effort) of the reduced base, pairs of deviations in thorough; oracle = independent legality test "
      "(row boundary, inside one row, clear of non-degenerate fixed obstructions, pairwise disjoint), unchanged-on-throw and the "
      "trivial-success clause; plus API histories on one object (<= 2, thorough 3, operations over {legalize, placeDetailed, turning / moving (setSolution, setCellX) / unflagging a non-square fixed obstruction, fixing a movable cell, copy-and-assign} before the call under test, judged on the geometry the getters report); plus the medium-size family (1944 circuits of 12..40 cells on 4..10 rows: width, position, obstacle, polarity and net patterns); non-trivial = legalize moved a cell or threw";
  c.bounds = gThorough ? "n<=4, <=2 deviations" : "n<=3, <=1 deviation";
  c.assumptions = {"rows of an instance are pairwise disjoint and of uniform height; zero-width/height rectangles obstruct nothing"};
  c.enumerate = enumerateAll;
  c.encode = [](const Spec &s) { return encode(s); };
  c.decode = [](const std::string &s) { return decode(s); };
  c.eval = eval;
  c.primers = legalizationPrimers();
  c.instanceTimeout = 20;
  c.deadline = gThorough ? 3000 : 400;
  return vf::runCheck(o, c);
}
