// C03 — Placement only moves movable cells; everything else is untouched.
// Every public getter is snapshotted before and compared after each stage of
// every stage sequence (length <= 2, thorough 3), with and without callback,
// including runs that end in an exception (infeasible, rejected parameters,
// callback throwing at every index).
#include "gp.hpp"

using namespace vg;

static bool gThorough = false;
static const char *stageName[3] = {"placeGlobal", "legalize", "placeDetailed"};

// aux = stage sequence encoded base 4 (digit 0 = end, 1..3 = stage+1), aux2: 0 no callback, 1 observing callback, 2 = fault enumeration
static void enumerateAll(const std::function<void(const Spec &)> &f) {
  std::vector<int> seqs;
  for (int a = 1; a <= 3; ++a) {
    seqs.push_back(a);
    for (int b = 1; b <= 3; ++b) {
      seqs.push_back(a + 4 * b);
      if (gThorough)
        for (int c = 1; c <= 3; ++c) seqs.push_back(a + 4 * b + 16 * c);
    }
  }
  auto emit = [&](const Spec &s, bool faults) {
    for (int seq : seqs)
      for (int cb = 0; cb < 2; ++cb) {
        Spec t = s;
        t.aux = seq;
        t.aux2 = cb;
        f(t);
      }
    if (faults)
      for (int a = 1; a <= 3; ++a) { Spec t = s; t.aux = a; t.aux2 = 2; f(t); }
  };
  // global placement alphabet (fixed cells with and without nets, inside/outside)
  {
    int i = 0;
    enumerateGpBase(gThorough ? 1 : 0, [&](const Spec &s, const GpShape &) {
      bool pick = gThorough ? (i % 3 == 0) : (i % 12 == 0);
      ++i;
      if (!pick) return;
      Spec t = s;
      t.devs.push_back({F_maxNbSteps, 6});
      emit(t, i % 5 == 1);
      Spec r = t;  // rejected parameters
      r.devs.push_back({F_orderingWidth, 7.0});
      if (i % 4 == 1) emit(r, false);
      // every single deviation of the global-placement parameter menu (blendings, net and cost models, reopt sizes, ...)
      // and of the detailed/legalization menus, on the stage they concern
      if (i % 3 == 1) {
        for (auto &pa : gpParamMenu(0)) {
          Spec d = t;
          d.devs.push_back({pa.field, pa.value});
          d.aux = 1; d.aux2 = 1;
          f(d);
        }
        for (auto &pa : detailedParamMenu()) {
          Spec d = t;
          d.devs.push_back({pa.field, pa.value});
          d.aux = 3; d.aux2 = 1;
          f(d);
        }
      }
    });
  }
  // medium-size family (12..40 cells, fixed column / comb of fixed blocks / terminal): every 12th member x {each stage alone,
  // the whole flow} with an observing callback
  {
    MediumCfg mc;
    mc.stride = gThorough ? 4 : 12;
    enumerateMedium(mc, [&](const Spec &m) {
      Spec u = m;
      u.devs.push_back({F_maxNbSteps, 6});
      for (int seq : {1, 2, 3, 1 + 4 * 2 + 16 * 3}) { Spec t = u; t.aux = seq; t.aux2 = 1; f(t); }
    });
  }
  // tiny-circuit alphabet with every fixed-cell deviation (legalize / detailed only make sense here, but all stages are run)
  Cfg b;
  b.rhs = {2};
  b.minCells = 1;
  b.maxCells = gThorough ? 3 : 2;
  b.pointLevel = 0;
  b.diagonalPositionsOnly = !gThorough;
  b.thoroughLayouts = gThorough;
  DevMenu m;
  m.polarity = false;
  m.orientation = false;
  m.params = {{F_reorderingMaxNbCells, 3}, {F_orderingWidth, 7.0}};
  enumerateBase(b, [&](const Spec &base, const Layout &l, int rh) {
    Spec b0 = base;
    auto menu = netMenu(base, 0);
    b0.nets = menu[std::min<size_t>(menu.size() - 1, 2)];
    enumerateDeviations(b0, l, rh, m, [&](const Spec &s1) {
      Spec u = s1;
      if (s1.cells.size() != base.cells.size() && s1.cells[0].fixed && !base.cells[0].fixed)
        for (auto &nt : u.nets) for (auto &p : nt.pins) p[0] += 1;
      // give the added fixed cell a pin too
      if (u.cells.size() != base.cells.size()) {
        int fc = u.cells[0].fixed && !base.cells[0].fixed ? 0 : (int)u.cells.size() - 1;
        NetSpec n; n.pins = {{fc, 0, 0}, {fc == 0 ? 1 : 0, 1, 1}};
        u.nets.push_back(n);
      }
      u.devs.push_back({F_maxNbSteps, 4});
      for (int seq : {2, 3, 2 + 4 * 3, 1 + 4 * 2, 3 + 4 * 3}) {
        Spec t = u; t.aux = seq; t.aux2 = 1; f(t);
      }
      { Spec t = u; t.aux = 3; t.aux2 = 2; f(t); }
      // a bank of fixed cells with consecutive indices in front of the movable ones: [fixed, fixed, movable, ...]
      if (s1.cells.size() != base.cells.size() && s1.cells[0].fixed && !base.cells[0].fixed) {
        Spec b2 = u;
        CellSpec extra = b2.cells[0];
        extra.x += 7; extra.y -= 3;
        b2.cells.insert(b2.cells.begin() + 1, extra);
        for (auto &nt : b2.nets) for (auto &p : nt.pins) if (p[0] >= 1) p[0] += 1;
        for (int seq : {2, 3, 1 + 4 * 2}) { Spec t = b2; t.aux = seq; t.aux2 = 1; f(t); }
      }
    });
  });
}

struct Thrown : std::runtime_error { Thrown() : std::runtime_error("callback fault") {} };

static CallResult runStage(Circuit &c, int stage, const ColoquinteParameters &p, const std::optional<PlacementCallback> &cb) {
  return guarded([&] {
    if (stage == 0) c.placeGlobal(p, cb);
    else if (stage == 1) c.legalize(p, cb);
    else c.placeDetailed(p, cb);
  });
}

static vf::Verdicts eval(const Spec &s, vf::Ctx &ctx) {
  vf::Verdicts out;
  std::set<std::string> seen;
  auto fail = [&](const std::string &cls, const std::string &msg) {
    if (seen.insert(cls).second) out.push_back({cls, msg + " | " + describe(s)});
  };
  ColoquinteParameters params = makeParams(s);
  auto compare = [&](const Snapshot &a, const Circuit &c, int stage, const std::string &when, bool threw) {
    Snapshot b = snapshot(c);
    std::string d = diffStructure(a, b);
    if (!d.empty()) fail(std::string(threw ? "after-throw:" : "after-return:") + d, std::string(stageName[stage]) + " " + when + " changed " + d);
    if (stage == 0 && a.orient != b.orient) fail("global-placement-changed-orientation", when);
  };
  bool anyFixed = false;
  for (auto &c : s.cells) anyFixed |= c.fixed;
  if (s.aux2 == 2) {
    // fault enumeration on a single stage
    int stage = s.aux - 1;
    int K = 0;
    { Circuit c = build(s); runStage(c, stage, params, PlacementCallback([&](PlacementStep) { ++K; })); }
    for (int k = 0; k < K; ++k) {
      Circuit c = build(s);
      Snapshot before = snapshot(c);
      int idx = 0;
      CallResult r = runStage(c, stage, params, PlacementCallback([&](PlacementStep) {
        compare(before, c, stage, "inside callback #" + std::to_string(idx), false);
        if (idx++ == k) throw Thrown();
      }));
      compare(before, c, stage, "callback fault at #" + std::to_string(k), r.threw);
      ctx.count("fault_runs");
    }
    ctx.count("evaluations", std::max(0, K - 1));
    if (K > 0 && anyFixed) ctx.nontrivial(hashSpec(s));
    return out;
  }
  Circuit c = build(s);
  int seq = s.aux, step = 0;
  bool moved = false;
  while (seq % 4 != 0) {
    int stage = seq % 4 - 1;
    seq /= 4;
    Snapshot before = snapshot(c);
    std::optional<PlacementCallback> cb;
    if (s.aux2 == 1) cb = PlacementCallback([&](PlacementStep) { compare(before, c, stage, "inside a callback", false); ctx.count("callbacks_observed"); });
    CallResult r = runStage(c, stage, params, cb);
    compare(before, c, stage, "call #" + std::to_string(step), r.threw);
    if (r.threw) ctx.count("calls_that_threw");
    else ctx.count("calls_that_returned");
    if (!samePlacement(before, snapshot(c))) moved = true;
    ++step;
  }
  if (moved && anyFixed) ctx.nontrivial(hashSpec(s));
  return out;
}

int main(int argc, char **argv) {
  vf::Opts o = vf::parseOpts(argc, argv);
  gThorough = o.thorough() && o.pass != "san";  // the secondary sanitizer pass of the thorough tier uses the quick alphabet
  vf::Check<Spec> c;
  c.property = "C03";
  c.level = "exploration";
  c.rule =
      "global-placement alphabet (1/12, thorough 1/3 of it; fixed cells: terminals with nets, obstruction inside / outside, non-obstruction block) and tiny-circuit alphabet with every "
      "fixed-cell deviation (20-shape menu before/after the movable cells, a bank of two fixed cells in front, a movable cell made fixed) x every stage sequence over {placeGlobal, legalize, placeDetailed} of length "
      "<= 2 (thorough 3) x {no callback, observing callback} + accepted and rejected parameter sets + every single deviation of the 68-entry global-placement parameter menu and of the detailed-placement menu on a third of the picked circuits + callback throwing at every index of single-stage runs; oracle: every public "
      "getter snapshotted before each call and compared after return or catch and inside every callback: sizes, flags, polarities, nets, offsets, weights (bitwise), rows, and "
      "x/y/orientation of fixed cells; all orientations after placeGlobal; non-trivial = a fixed cell is present and a cell moved";
  c.bounds = gThorough ? "sequences <= 3" : "sequences <= 2";
  c.enumerate = enumerateAll;
  c.encode = [](const Spec &s) { return encode(s); };
  c.decode = [](const std::string &s) { return decode(s); };
  c.eval = eval;
  c.instanceTimeout = 120;
  c.deadline = gThorough ? 3000 : 300;
  return vf::runCheck(o, c);
}
