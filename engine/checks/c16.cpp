// C16 — Density bins account for all free area and every cell is in one bin.
// (a) grids built from circuits, compared with unit-exact area computation;
// (b) explicit-state search over refinement / coarsening / rough-legalization
//     passes of the real DensityLegalizer.
#include <unordered_map>

#include "gp.hpp"
#include "place_global/density_legalizer.hpp"

using namespace vg;

static bool gThorough = false;

// clipped free rows as the documentation defines them
static std::vector<Rect> clippedRows(const Spec &s, const Circuit &c, double sideMargin, int &minCellHeight) {
  minCellHeight = INT32_MAX;
  for (auto &cs : s.cells) if (cs.h > 0) minCellHeight = std::min(minCellHeight, cs.h);
  int margin = (int)(sideMargin * minCellHeight);
  std::vector<Rect> obs = obstructions(c);
  std::vector<Rect> out;
  for (auto &r : s.rows)
    for (auto &run : freeRuns(r, obs)) {
      if (run.second - run.first <= 2LL * margin) continue;
      out.push_back({run.first + margin, run.second - margin, r.minY, r.maxY});
    }
  return out;
}

static long long interArea(const Rect &a, long long x0, long long x1, long long y0, long long y1) {
  long long w = std::min(a.x1, x1) - std::max(a.x0, x0), h = std::min(a.y1, y1) - std::max(a.y0, y0);
  return (w > 0 && h > 0) ? w * h : 0;
}

// aux 0: grid (aux2 = binSize idx + 4*margin idx); aux 1: pass graph (aux2 = parameter variant)
static const double BINSIZES[4] = {1.0, 1.5, 2.5, 5.0};
static const double SIDEMARGINS[4] = {0.0, 0.5, 0.9, 2.0};

static std::vector<Spec> histCircuits() {
  std::vector<Spec> v;
  auto cell = [](int w, int h, int x, int y, bool fixed = false, bool obs = true) {
    CellSpec c; c.w = w; c.h = h; c.x = x; c.y = y; c.fixed = fixed; c.obstruction = obs; return c;
  };
  {
    Spec s;
    for (int i = 0; i < 6; ++i) s.rows.push_back(mkRow(0, 24, i, 2, i % 2 ? oFS : oN));
    s.cells = {cell(3, 2, 0, 0), cell(2, 2, 20, 10), cell(4, 4, 9, 4), cell(2, 2, 9, 4), cell(0, 2, 5, 5), cell(6, 4, 10, 0, true, true)};
    v.push_back(s);
  }
  {
    Spec s;
    for (int i = 0; i < 4; ++i) s.rows.push_back(mkRow(i == 1 ? 6 : 0, 17, i, 2, oN, -5, 3));
    s.cells = {cell(2, 2, 0, 0), cell(2, 2, 0, 0), cell(2, 2, 0, 0), cell(5, 2, 3, 3), cell(3, 3, 1, 4, true, false)};
    v.push_back(s);
  }
  {  // a fully blocked band: several adjacent bins without any capacity, in x and in y
    Spec s;
    for (int i = 0; i < 6; ++i) s.rows.push_back(mkRow(0, 24, i, 2, i % 2 ? oFS : oN));
    s.cells = {cell(3, 2, 9, 2), cell(2, 2, 12, 4), cell(2, 2, 15, 2), cell(2, 2, 0, 0), cell(4, 2, 20, 10), cell(14, 8, 6, 0, true, true)};
    v.push_back(s);
  }
  {  // the first circuit at 10000 x 10000 units per grid step: every cell area fits in 31 bits, the total demand of a coarse bin does not
    Spec s = scaled(v[0], 10000, 10000);
    v.push_back(s);
  }
  return v;
}

static void enumerateAll(const std::function<void(const Spec &)> &f0) {
  // every 37th grid instance also scaled by (3001, 7001): bin capacities pass 2^31
  auto f = withMagnitudes(f0, 37, {{1, 3001, 7001}}, [](const Spec &s) { return s.aux == 0; });
  // (a) grids: tiny-circuit-like and GP-like regions with obstructions
  {
    int i = 0;
    enumerateGpBase(1, [&](const Spec &s, const GpShape &) {
      if (i++ % (gThorough ? 2 : 9) != 0) return;
      for (int k = 0; k < 16; ++k) { Spec t = s; t.aux = 0; t.aux2 = k; f(t); }
    });
  }
  for (int rh : {1, 2, 3}) {
    for (auto &l : layouts(rh, true)) {
      for (auto &fs : fixedMenu(l, rh)) {
        Spec s;
        s.rows = l.rows;
        CellSpec c; c.w = 1; c.h = rh; c.x = l.x0; c.y = l.y0;
        s.cells = {c, fs.c};
        for (int k = 0; k < 16; ++k) { Spec t = s; t.aux = 0; t.aux2 = k; f(t); }
        Spec u = s;  // a taller fixed cell changes the smallest height only if it is the smallest: add a short fixed cell
        CellSpec sh; sh.w = 1; sh.h = 1; sh.x = l.x0 + 30; sh.y = l.y0; sh.fixed = true; sh.obstruction = false;
        u.cells.push_back(sh);
        for (int k = 0; k < 16; ++k) { Spec t = u; t.aux = 0; t.aux2 = k; f(t); }
      }
    }
  }
  // (b) pass graphs
  int nv = 0;
  for (auto &s : histCircuits()) {
    (void)nv;
    for (int variant = 0; variant < (gThorough ? 12 : 8); ++variant) {
      Spec t = s;
      t.aux = 1;
      t.aux2 = variant;
      f(t);
    }
  }
}

static DensityLegalizer::Parameters legParams(int variant) {
  DensityLegalizer::Parameters p;
  p.nbSteps = 1;
  p.lineReoptSize = 2; p.lineReoptOverlap = 1; p.diagReoptSize = 2; p.diagReoptOverlap = 1;
  p.squareReoptSize = 2; p.squareReoptOverlap = 1;
  p.unidimensionalTransport = true;
  p.coarseningLimit = 100.0;
  p.quadraticPenaltyFactor = 0.001 / 36.0;
  static const LegalizationModel models[6] = {LegalizationModel::L1, LegalizationModel::L2, LegalizationModel::LInf,
                                              LegalizationModel::L1Squared, LegalizationModel::L2Squared, LegalizationModel::LInfSquared};
  p.costModel = models[variant % 6];
  if (p.costModel != LegalizationModel::L1) p.unidimensionalTransport = false;
  if (variant >= 6) { p.lineReoptSize = 3; p.diagReoptSize = 3; p.squareReoptSize = 3; p.nbSteps = 2; p.coarseningLimit = 1.0; }
  return p;
}

struct Op { int kind, arg; };
static const char *opNames[] = {"refineX", "refineY", "coarsenX", "coarsenY", "refine", "improve", "run", "improveXTransport", "improveYTransport",
                                "improveSquare", "improveDiagonals", "improveXY", "updateTargets", "updateCellDemand"};

static float gTargetScale = 1.0f;
static std::vector<std::vector<float>> targetMenuX1(int n);
static std::vector<std::vector<float>> targetMenuX(int n) {
  std::vector<std::vector<float>> m = targetMenuX1(n);
  for (auto &v : m) for (auto &x : v) x *= gTargetScale;
  return m;
}
static std::vector<std::vector<float>> targetMenuX1(int n) {
  std::vector<std::vector<float>> m;
  { std::vector<float> v(n); for (int i = 0; i < n; ++i) v[i] = 2.5f + 5.0f * i; m.push_back(v); }       // inside, spread
  { std::vector<float> v(n, 7.0f); m.push_back(v); }                                                  // coincident
  { std::vector<float> v(n); for (int i = 0; i < n; ++i) v[i] = (i % 2) ? 300.0f : -200.0f; m.push_back(v); }  // outside
  return m;
}

static bool enabled(const DensityLegalizer &l, const Op &op) {
  switch (op.kind) {
    case 0: return l.levelX() >= 1;
    case 1: return l.levelY() >= 1;
    case 2: return l.levelX() + 1 < l.nbLevelX();
    case 3: return l.levelY() + 1 < l.nbLevelY();
    case 4: return l.levelX() > 0 || l.levelY() > 0;
    default: return true;
  }
}

static const Circuit *gCircuit = nullptr;  // the circuit of the instance being explored (for updateCellDemand)
static void apply(DensityLegalizer &l, const Op &op) {
  switch (op.kind) {
    case 13: {
      // sizes changed by a callback during global placement: arg 0 = every movable cell one unit wider (legitimate),
      // arg 1 = the first movable cell of positive area shrunk to zero width (must be refused, or leave the cell in no bin)
      Circuit cc = *gCircuit;
      std::vector<int> w = cc.cellWidth();
      bool done = false;
      for (int i = 0; i < cc.nbCells(); ++i) {
        if (cc.cellIsFixed()[i] || w[i] <= 0 || cc.cellHeight()[i] <= 0) continue;
        if (op.arg == 0) w[i] += 1;
        else if (!done) { w[i] = 0; done = true; }
      }
      cc.setCellWidth(w);
      l.updateCellDemand(cc);
      break;
    }
    case 0: l.refineX(); break;
    case 1: l.refineY(); break;
    case 2: l.coarsenX(); break;
    case 3: l.coarsenY(); break;
    case 4: l.refine(); break;
    case 5: l.improve(); break;
    case 6: l.run(); break;
    case 7: l.improveXTransport(); break;
    case 8: l.improveYTransport(); break;
    case 9: l.improveSquare(); break;
    case 10: l.improveDiagonals(); break;
    case 11: l.improveXY(); break;
    case 12: {
      auto m = targetMenuX(l.nbCells());
      l.updateCellTargetX(m[op.arg]);
      std::vector<float> y = m[(op.arg + 1) % m.size()];
      for (auto &v : y) v *= 0.4f;
      l.updateCellTargetY(y);
      break;
    }
  }
}

static std::string canon(const DensityLegalizer &l) {
  std::string k = std::to_string(l.levelX()) + "/" + std::to_string(l.levelY()) + ":";
  for (int i = 0; i < l.nbBinsX(); ++i)
    for (int j = 0; j < l.nbBinsY(); ++j) {
      for (int c : l.binCells(i, j)) k += std::to_string(c) + ",";
      k += ";";
    }
  k += "|";
  for (int c = 0; c < l.nbCells(); ++c) k += std::to_string(l.cellDemand(c)) + ",";
  k += "|";
  for (int c = 0; c < l.nbCells(); ++c) {
    float tx = l.cellTargetX(c), ty = l.cellTargetY(c);
    uint32_t a, b;
    memcpy(&a, &tx, 4);
    memcpy(&b, &ty, 4);
    k += std::to_string(a) + "," + std::to_string(b) + ";";
  }
  return k;
}

// invariant of a hierarchical placement state; fine = capacities of the finest grid (oracle-validated separately)
static std::string invariant(const DensityLegalizer &l, const std::vector<Rect> &clipped) {
  int n = l.nbCells();
  std::vector<int> count(n, 0), bx(n, -1), by(n, -1);
  if ((int)l.binCells_.size() != l.nbBinsX()) return "bin-array-size";
  long long capSum = 0;
  for (int i = 0; i < l.nbBinsX(); ++i) {
    if ((int)l.binCells_[i].size() != l.nbBinsY()) return "bin-array-size";
    if (!(l.binLimitX(i) <= l.binLimitX(i + 1))) return "bin-limits-not-ordered";
    for (int j = 0; j < l.nbBinsY(); ++j) {
      for (int c : l.binCells(i, j)) {
        if (c < 0 || c >= n) return "cell-index-out-of-range";
        ++count[c];
        bx[c] = i;
        by[c] = j;
      }
      // capacity of the current view = free area inside the bin's rectangle
      long long want = 0;
      for (auto &r : clipped) want += interArea(r, l.binLimitX(i), l.binLimitX(i + 1), l.binLimitY(j), l.binLimitY(j + 1));
      if (l.binCapacity(i, j) != want) return "coarse-capacity-differs-from-free-area";
      capSum += want;
    }
  }
  if (l.binLimitX(0) != l.placementArea().minX || l.binLimitX(l.nbBinsX()) != l.placementArea().maxX) return "bins-do-not-cover-x";
  if (l.binLimitY(0) != l.placementArea().minY || l.binLimitY(l.nbBinsY()) != l.placementArea().maxY) return "bins-do-not-cover-y";
  if (capSum != l.totalCapacity()) return "total-capacity-differs";
  for (int c = 0; c < n; ++c) {
    if (l.cellDemand(c) > 0) {
      if (count[c] != 1) return count[c] == 0 ? "cell-in-no-bin" : "cell-in-several-bins";
      if (l.cellBinX(c) != bx[c] || l.cellBinY(c) != by[c]) return "cellBin-inconsistent";
    } else if (count[c] != 0) return "zero-demand-cell-in-a-bin";
  }
  // reported coordinates inside the bin
  std::vector<float> tx(n), ty(n);
  for (int c = 0; c < n; ++c) { tx[c] = l.cellTargetX(c); ty[c] = l.cellTargetY(c); }
  std::vector<float> sx = l.spreadCoordX(tx), sy = l.spreadCoordY(ty), px = l.simpleCoordX(), py = l.simpleCoordY();
  for (int c = 0; c < n; ++c) {
    if (l.cellDemand(c) <= 0) continue;
    float x0 = l.binLimitX(bx[c]), x1 = l.binLimitX(bx[c] + 1), y0 = l.binLimitY(by[c]), y1 = l.binLimitY(by[c] + 1);
    if (!(sx[c] >= x0 && sx[c] <= x1 && sy[c] >= y0 && sy[c] <= y1)) return "spread-coordinate-outside-bin";
    if (!(px[c] >= x0 && px[c] <= x1 && py[c] >= y0 && py[c] <= y1)) return "simple-coordinate-outside-bin";
  }
  return "";
}

static vf::Verdicts eval(const Spec &s, vf::Ctx &ctx) {
  vf::Verdicts out;
  std::set<std::string> seen;
  auto fail = [&](const std::string &cls, const std::string &msg) {
    if (seen.insert(cls).second) out.push_back({cls, msg + " | aux " + std::to_string(s.aux) + "/" + std::to_string(s.aux2) + " " + describe(s)});
  };
  Circuit c = build(s);
  if (s.aux == 0) {
    double binSize = BINSIZES[s.aux2 % 4], sideMargin = SIDEMARGINS[s.aux2 / 4];
    int mch;
    std::vector<Rect> clipped = clippedRows(s, c, sideMargin, mch);
    if (clipped.empty()) { ctx.count("grids_with_every_row_clipped_away"); }
    std::optional<DensityGrid> g;
    CallResult r = guarded([&] { g.emplace(DensityGrid::fromIspdCircuit(c, binSize, sideMargin)); });
    if (r.threw) { fail("grid-construction-throws", r.what); return out; }
    // tiling
    Rectangle area = g->placementArea();
    long long minx = 1LL << 60, maxx = -(1LL << 60), miny = 1LL << 60, maxy = -(1LL << 60);
    for (auto &cr : clipped) { minx = std::min(minx, cr.x0); maxx = std::max(maxx, cr.x1); miny = std::min(miny, cr.y0); maxy = std::max(maxy, cr.y1); }
    if (!clipped.empty() && (area.minX != minx || area.maxX != maxx || area.minY != miny || area.maxY != maxy)) fail("grid-area-differs-from-clipped-rows", "");
    for (int i = 0; i < g->nbBinsX(); ++i) if (g->binLimitX(i) > g->binLimitX(i + 1)) fail("grid-limits-not-ordered", "");
    for (int j = 0; j < g->nbBinsY(); ++j) if (g->binLimitY(j) > g->binLimitY(j + 1)) fail("grid-limits-not-ordered", "");
    if (g->binLimitX(0) != area.minX || g->binLimitX(g->nbBinsX()) != area.maxX || g->binLimitY(0) != area.minY || g->binLimitY(g->nbBinsY()) != area.maxY)
      fail("grid-does-not-tile-area", "");
    long long tot = 0, free = 0;
    for (auto &cr : clipped) free += (cr.x1 - cr.x0) * (cr.y1 - cr.y0);
    for (int i = 0; i < g->nbBinsX(); ++i)
      for (int j = 0; j < g->nbBinsY(); ++j) {
        long long want = 0;
        for (auto &cr : clipped) want += interArea(cr, g->binLimitX(i), g->binLimitX(i + 1), g->binLimitY(j), g->binLimitY(j + 1));
        if (g->binCapacity(i, j) != want) fail("bin-capacity-differs-from-free-area", "bin " + std::to_string(i) + "," + std::to_string(j) + " has " + std::to_string(g->binCapacity(i, j)) + " want " + std::to_string(want));
        tot += g->binCapacity(i, j);
      }
    if (tot != free) fail("total-capacity-differs-from-free-area", std::to_string(tot) + " vs " + std::to_string(free));
    // every coarser view aggregates exactly
    std::optional<HierarchicalDensityPlacement> h;
    CallResult hr = guarded([&] { h.emplace(HierarchicalDensityPlacement::fromIspdCircuit(c, binSize, sideMargin)); });
    if (hr.threw) { fail("hierarchy-construction-throws", hr.what); return out; }
    for (int guard = 0; guard < 64; ++guard) {
      for (int i = 0; i < h->nbBinsX(); ++i)
        for (int j = 0; j < h->nbBinsY(); ++j) {
          long long want = 0;
          for (auto &cr : clipped) want += interArea(cr, h->binLimitX(i), h->binLimitX(i + 1), h->binLimitY(j), h->binLimitY(j + 1));
          if (h->binCapacity(i, j) != want) fail("coarse-capacity-differs-from-free-area", "level " + std::to_string(h->levelX()) + "/" + std::to_string(h->levelY()));
        }
      ctx.count("hierarchy_levels_checked");
      if (h->levelX() > 0 && (h->levelX() >= h->levelY())) h->refineX();
      else if (h->levelY() > 0) h->refineY();
      else break;
    }
    if (g->nbBins() > 1 && free > 0) ctx.nontrivial(hashSpec(s));
    return out;
  }
  // (b) pass graph
  gTargetScale = (float)((s.rows[0].maxY - s.rows[0].minY) / 2);
  double binSize = 2.0, sideMargin = (s.aux2 % 2) ? 0.5 : 0.0;
  int mch;
  std::vector<Rect> clipped = clippedRows(s, c, sideMargin, mch);
  std::optional<DensityLegalizer> init;
  CallResult r = guarded([&] {
    init.emplace(DensityLegalizer::fromIspdCircuit(c, binSize, sideMargin));
    init->setParams(legParams(s.aux2));
    auto m = targetMenuX(init->nbCells());
    init->updateCellTargetX(m[0]);
    std::vector<float> y = m[0];
    for (auto &v : y) v *= 0.4f;
    init->updateCellTargetY(y);
  });
  if (r.threw) { fail("legalizer-construction-throws", r.what); return out; }
  std::vector<Op> menu;
  for (int k = 0; k <= 11; ++k) menu.push_back({k, 0});
  for (int a = 0; a < 3; ++a) menu.push_back({12, a});
  for (int a = 0; a < 2; ++a) menu.push_back({13, a});
  gCircuit = &c;
  struct St { DensityLegalizer l; int parent; Op via; int depth; };
  std::vector<St> states;
  std::unordered_map<std::string, int> seenStates;
  states.push_back({*init, -1, {0, 0}, 0});
  seenStates[canon(*init)] = 0;
  auto hist = [&](int idx, const Op *extra) {
    std::vector<Op> h;
    for (int i = idx; states[i].parent >= 0; i = states[i].parent) h.push_back(states[i].via);
    std::reverse(h.begin(), h.end());
    std::string r;
    for (auto &o : h) r += std::string(opNames[o.kind]) + (o.kind == 12 ? std::to_string(o.arg) : "") + " ";
    if (extra) r += std::string(opNames[extra->kind]) + (extra->kind == 12 ? std::to_string(extra->arg) : "");
    return r;
  };
  {
    std::string why = invariant(*init, clipped);
    if (!why.empty()) fail("initial-state:" + why, "");
  }
  int maxDepth = gThorough ? 5 : 4;
  size_t cap = gThorough ? 40000 : 12000;
  bool capped = false;
  for (size_t cur = 0; cur < states.size(); ++cur) {
    if (states[cur].depth >= maxDepth) continue;
    if (states.size() > cap) { capped = true; break; }
    for (const Op &op : menu) {
      if (!enabled(states[cur].l, op)) continue;
      DensityLegalizer q = states[cur].l;
      CallResult ar = guarded([&] { apply(q, op); });
      ctx.count("transitions");
      if (ar.threw && op.kind == 13) {
        // a refused size update is fine, provided it changed nothing
        if (canon(q) != canon(states[cur].l) || !invariant(q, clipped).empty()) fail("refused-size-update-changed-the-state", "after " + hist(cur, &op));
        ctx.count("size_updates_refused");
        continue;
      }
      if (ar.threw) { fail("operation-throws:" + std::string(opNames[op.kind]), ar.what + " after " + hist(cur, &op)); continue; }
      std::string why = invariant(q, clipped);
      if (!why.empty()) fail("state:" + why, "after " + hist(cur, &op));
      std::string k = canon(q);
      if (seenStates.count(k)) continue;
      int idx = states.size();
      seenStates[k] = idx;
      states.push_back({q, (int)cur, op, states[cur].depth + 1});
      // validate the trace by replay on a fresh object
      DensityLegalizer rp = *init;
      std::vector<Op> h;
      for (int i = idx; states[i].parent >= 0; i = states[i].parent) h.push_back(states[i].via);
      for (auto it = h.rbegin(); it != h.rend(); ++it) apply(rp, *it);
      if (canon(rp) != k) fail("HARNESS-replay-diverges", hist(idx, nullptr));
      ctx.count("traces_validated_against_impl");
    }
  }
  ctx.count("states", states.size());
  if (capped) ctx.count("pass_graphs_capped");
  ctx.nontrivial(hashSpec(s));
  return out;
}

int main(int argc, char **argv) {
  vf::Opts o = vf::parseOpts(argc, argv);
  gThorough = o.thorough() && o.pass != "san";  // the secondary sanitizer pass of the thorough tier uses the quick alphabet
  vf::Check<Spec> c;
  c.property = "C16";
  c.level = "model_checking";
  c.rule =
      "(a) DensityGrid / HierarchicalDensityPlacement::fromIspdCircuit on the GP alphabet (1/9, thorough 1/2) and on every layout x fixed-shape menu entry (row heights 1,2,3; with "
      "and without a short fixed cell that changes the smallest cell height) x bin sizes {1,1.5,2.5,5} x side margins {0,0.5,0.9,2}: bins tile the area, every bin capacity equals the "
      "area of (clipped free rows ∩ bin) computed independently, every coarser level aggregates exactly; (b) breadth-first search on the real DensityLegalizer (4 circuits, one with a band of adjacent zero-capacity bins, one scaled by 10000 so that the demand of a coarse bin exceeds 2^31; 6x3..12x6 "
      "bins with an obstruction notch / ragged rows, 5-6 cells incl. zero-demand) over {refineX, refineY, coarsenX, coarsenY, refine, improve, run, improveXTransport, "
      "improveYTransport, improveSquare, improveDiagonals, improveXY, 3 target updates (inside, coincident, outside), 2 size updates (every cell wider; a cell shrunk to zero area: refused without effect, or the cell must leave its bin)} x 8 (12) parameter variants (all cost models, reopt sizes 2 and 3), "
      "depth 4 (5); invariant in every state: capacity of the current view, each non-zero-demand cell in exactly one bin consistent with cellBinX/Y, zero-demand cells in none, "
      "spread/simple coordinates inside the bin";
  c.bounds = gThorough ? "depth 5, cap 40000 states per graph" : "depth 4, cap 12000 states per graph";
  c.assumptions = {"'after the side margin' = every free row segment loses floor(sideMargin x smallest positive height among all cells) on each side and disappears if nothing is left",
                   "DensityLegalizer is copied to branch; every new state is re-derived by replaying its operation history"};
  c.enumerate = enumerateAll;
  c.encode = [](const Spec &s) { return encode(s); };
  c.decode = [](const std::string &s) { return decode(s); };
  c.eval = eval;
  c.instanceTimeout = 300;
  c.deadline = gThorough ? 3000 : 400;
  return vf::runCheck(o, c);
}
