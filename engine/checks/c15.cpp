// C15 — Free row space is exactly the rows minus fixed obstructions.
#include "circuit.hpp"

using namespace vc;

struct R4 { int x0, x1, y0, y1; };
struct Inst {
  int rowVariant;         // which row (geometry + orientation)
  std::vector<R4> obs;    // obstacle rectangles (min <= max; degenerate allowed)
  int mode;               // 0 Row::freespace, 1 Circuit::computeRows with flag combinations
  int flags;              // mode 1: per obstacle 2 bits: bit0 fixed, bit1 obstruction; plus extra-obstacle selection
};

// variants 4..7 are variants 0..3 translated far away (the obstacle rectangles of the instance are translated with them)
static const int TDX = 1000000007, TDY = -1000000011;
static RowSpec rowOf(int v) {
  if (v == 8) return {0, 400, 0, 2, 0};  // wide row for the many-obstacle family
  if (v >= 4) { RowSpec r = rowOf(v - 4); r.minX += TDX; r.maxX += TDX; r.minY += TDY; r.maxY += TDY; return r; }
  switch (v) {
    case 0: return {0, 4, 0, 2, 0};
    case 1: return {1, 4, 0, 2, 5};    // FS, offset start
    case 2: return {-1, 3, 1, 3, 1};   // S, offset in y
    default: return {0, 4, 0, 1, 4};   // FN, height 1
  }
}

static std::string enc(const Inst &in) {
  std::ostringstream o;
  o << in.rowVariant << " " << in.mode << " " << in.flags << " " << in.obs.size();
  for (auto &r : in.obs) o << " " << r.x0 << " " << r.x1 << " " << r.y0 << " " << r.y1;
  return o.str();
}
static Inst dec(const std::string &s) {
  std::istringstream i(s);
  Inst in;
  size_t n;
  i >> in.rowVariant >> in.mode >> in.flags >> n;
  in.obs.resize(n);
  for (auto &r : in.obs) i >> r.x0 >> r.x1 >> r.y0 >> r.y1;
  return in;
}

static std::string compare(const RowSpec &row, const std::vector<Rect> &effective, const std::vector<Row> &got) {
  // column oracle
  auto runs = freeRuns(row, effective);
  std::vector<char> freeCol(row.maxX - row.minX, 0), covered(row.maxX - row.minX, 0);
  for (auto &r : runs)
    for (long long x = r.first; x < r.second; ++x) freeCol[x - row.minX] = 1;
  for (auto &g : got) {
    if ((int)g.orientation != row.orient) return "orientation-changed";
    if (g.minY != row.minY || g.maxY != row.maxY) return "not-full-height";
    if (g.minX < row.minX || g.maxX > row.maxX) return "outside-row";
    if (g.minX >= g.maxX) return "empty-segment";
    for (int x = g.minX; x < g.maxX; ++x) {
      if (covered[x - row.minX]) return "segments-overlap";
      covered[x - row.minX] = 1;
      if (!freeCol[x - row.minX]) return "segment-meets-obstruction";
    }
  }
  for (size_t k = 0; k < freeCol.size(); ++k)
    if (freeCol[k] && !covered[k]) return "free-column-missing";
  return "";
}

static vf::Verdicts eval(const Inst &in0, vf::Ctx &ctx) {
  vf::Verdicts out;
  Inst in = in0;
  if (in.rowVariant >= 4 && in.rowVariant < 8)
    for (auto &o : in.obs) { o.x0 += TDX; o.x1 += TDX; o.y0 += TDY; o.y1 += TDY; }
  RowSpec row = rowOf(in.rowVariant);
  Row r(row.minX, row.maxX, row.minY, row.maxY, (CellOrientation)row.orient);
  if (in.mode == 2) {
    // history: computeRows, then one setter that changes the fixed obstruction from rectangle A to B (or its flags), then computeRows again
    const R4 &A = in.obs[0], &B = in.obs[1];
    int op = in.flags;
    Circuit c(2);
    c.setCellWidth({A.x1 - A.x0, 1}); c.setCellHeight({A.y1 - A.y0, row.maxY - row.minY});
    c.setCellX({A.x0, row.minX}); c.setCellY({A.y0, row.minY});
    c.setCellIsFixed({true, false}); c.setCellIsObstruction({true, true});
    c.setRows({r});
    std::vector<Row> got;
    CallResult cr = guarded([&] { got = c.computeRows(); });
    if (cr.threw) { out.push_back({"computeRows-throws", cr.what + " | " + enc(in)}); return out; }
    std::string why = compare(row, {Rect{A.x0, A.x1, A.y0, A.y1}}, got);
    if (!why.empty()) out.push_back({"computeRows:" + why, enc(in)});
    std::vector<Rect> eff;
    static const char *opn[8] = {"setCellX+setCellY", "setSolution", "setCellWidth+setCellHeight", "setCellIsFixed(false)", "setCellIsObstruction(false)",
                                 "setCellOrientation(W)", "setSolution(turned)", "setCellIsFixed(false,true)"};
    switch (op) {
      case 0: c.setCellX({B.x0, row.minX}); c.setCellY({B.y0, row.minY}); eff.push_back({B.x0, B.x0 + (A.x1 - A.x0), B.y0, B.y0 + (A.y1 - A.y0)}); break;
      case 1: c.setSolution({CellPlacement(B.x0, B.y0, CellOrientation::N), CellPlacement(row.minX, row.minY, CellOrientation::N)});
              eff.push_back({B.x0, B.x0 + (A.x1 - A.x0), B.y0, B.y0 + (A.y1 - A.y0)}); break;
      case 2: c.setCellWidth({B.x1 - B.x0, 1}); c.setCellHeight({B.y1 - B.y0, row.maxY - row.minY}); eff.push_back({A.x0, A.x0 + (B.x1 - B.x0), A.y0, A.y0 + (B.y1 - B.y0)}); break;
      case 3: c.setCellIsFixed({false, false}); break;
      case 4: c.setCellIsObstruction({false, true}); break;
      case 5: c.setCellOrientation({CellOrientation::W, CellOrientation::N}); eff.push_back({A.x0, A.x0 + (A.y1 - A.y0), A.y0, A.y0 + (A.x1 - A.x0)}); break;
      case 6: c.setSolution({CellPlacement(B.x0, B.y0, CellOrientation::FE), CellPlacement(row.minX, row.minY, CellOrientation::N)});
              eff.push_back({B.x0, B.x0 + (A.y1 - A.y0), B.y0, B.y0 + (A.x1 - A.x0)}); break;
      default: c.setCellIsFixed({false, true}); eff.push_back({row.minX, row.minX + 1, row.minY, row.maxY}); break;
    }
    cr = guarded([&] { got = c.computeRows(); });
    if (cr.threw) { out.push_back({"computeRows-throws", cr.what + " | " + enc(in)}); return out; }
    why = compare(row, eff, got);
    if (!why.empty()) out.push_back({"computeRows-after-" + std::string(opn[op]) + ":" + why, enc(in)});
    ctx.nontrivial(vf::fnv(enc(in)));
    return out;
  }
  if (in.mode == 3) {
    const R4 &A = in.obs[0], &B = in.obs[1];
    R4 rect[2] = {A, B};
    bool fixedF[2] = {false, false}, obsF[2] = {true, true};
    Circuit c(3);
    int rh = row.maxY - row.minY;
    c.setCellWidth({A.x1 - A.x0, B.x1 - B.x0, 1}); c.setCellHeight({A.y1 - A.y0, B.y1 - B.y0, rh});
    c.setCellX({A.x0, B.x0, row.minX}); c.setCellY({A.y0, B.y0, row.minY});
    c.setRows({r});
    std::string hist;
    int code = in.flags;
    auto checkNow = [&](const std::string &when) -> bool {
      std::vector<Row> got;
      CallResult cr = guarded([&] { got = c.computeRows(); });
      if (cr.threw) { out.push_back({"computeRows-throws", cr.what + " | " + when + " | " + enc(in)}); return false; }
      std::vector<Rect> eff;
      for (int k = 0; k < 2; ++k)
        if (fixedF[k] && obsF[k]) eff.push_back({rect[k].x0, rect[k].x1, rect[k].y0, rect[k].y1});
      std::string why = compare(row, eff, got);
      if (!why.empty()) { out.push_back({"computeRows-after-setter-history:" + why, "after" + when + " | " + enc(in)}); return false; }
      return true;
    };
    if (!checkNow(" construction")) return out;
    while (code > 0) {
      int op = code % 10 - 1;
      code /= 10;
      if (op < 4) {
        fixedF[0] = op & 1; fixedF[1] = op & 2;
        c.setCellIsFixed({fixedF[0], fixedF[1], false});
        hist += " setCellIsFixed(" + std::to_string(op) + ")";
      } else if (op < 8) {
        obsF[0] = (op - 4) & 1; obsF[1] = (op - 4) & 2;
        c.setCellIsObstruction({obsF[0], obsF[1], true});
        hist += " setCellIsObstruction(" + std::to_string(op - 4) + ")";
      } else {
        // the two cells exchange their lower-left corners (sizes stay)
        R4 a = rect[0], b = rect[1];
        rect[0] = {b.x0, b.x0 + (a.x1 - a.x0), b.y0, b.y0 + (a.y1 - a.y0)};
        rect[1] = {a.x0, a.x0 + (b.x1 - b.x0), a.y0, a.y0 + (b.y1 - b.y0)};
        c.setCellX({rect[0].x0, rect[1].x0, row.minX}); c.setCellY({rect[0].y0, rect[1].y0, row.minY});
        hist += " exchange";
      }
      ctx.count("history_steps_checked");
      if (!checkNow(hist)) return out;
    }
    ctx.nontrivial(vf::fnv(enc(in)));
    return out;
  }
  if (in.mode == 4) {
    int n = in.obs.size();
    Circuit c(n + 1);
    std::vector<int> w(n + 1, 1), h(n + 1, row.maxY - row.minY), x(n + 1, row.minX), y(n + 1, row.minY);
    std::vector<bool> fx(n + 1, false), ob(n + 1, true);
    std::vector<Rect> eff;
    for (int i = 0; i < n; ++i) {
      // the movable filler cell sits in the middle of the vector
      int ci = i < n / 2 ? i : i + 1;
      w[ci] = in.obs[i].x1 - in.obs[i].x0; h[ci] = in.obs[i].y1 - in.obs[i].y0; x[ci] = in.obs[i].x0; y[ci] = in.obs[i].y0;
      fx[ci] = true;
      eff.push_back({in.obs[i].x0, in.obs[i].x1, in.obs[i].y0, in.obs[i].y1});
    }
    c.setCellWidth(w); c.setCellHeight(h); c.setCellX(x); c.setCellY(y); c.setCellIsFixed(fx); c.setCellIsObstruction(ob);
    c.setRows({r});
    std::vector<Row> got;
    CallResult cr = guarded([&] { got = c.computeRows(); });
    if (cr.threw) { out.push_back({"computeRows-throws", cr.what + " | many obstacles " + std::to_string(n)}); return out; }
    std::string why = compare(row, eff, got);
    if (!why.empty()) out.push_back({"computeRows-many-obstacles:" + why, std::to_string(n) + " obstacles | " + enc(in).substr(0, 200)});
    ctx.nontrivial(vf::fnv(enc(in)));
    return out;
  }
  if (in.mode == 0) {
    std::vector<Rectangle> obs;
    std::vector<Rect> eff;
    for (auto &o : in.obs) { obs.emplace_back(o.x0, o.x1, o.y0, o.y1); eff.push_back({o.x0, o.x1, o.y0, o.y1}); }
    std::vector<Row> got;
    CallResult cr = guarded([&] { got = r.freespace(obs); });
    if (cr.threw) { out.push_back({"freespace-throws", cr.what + " | " + enc(in)}); return out; }
    std::string why = compare(row, eff, got);
    if (!why.empty()) out.push_back({"freespace:" + why, enc(in)});
    if (got.size() != 1 || got[0].minX != row.minX || got[0].maxX != row.maxX) ctx.nontrivial(vf::fnv(enc(in)));
  } else {
    // obstacles become cells with every fixed/obstruction flag combination; the last one may be an extra obstacle
    int n = in.obs.size();
    int extra = (in.flags >> (2 * n)) & 1;
    int nCells = extra ? n - 1 : n;
    Circuit c(nCells + 1);
    std::vector<int> w(nCells + 1, 1), h(nCells + 1, row.maxY - row.minY), x(nCells + 1, row.minX), y(nCells + 1, row.minY);
    std::vector<bool> fx(nCells + 1, false), ob(nCells + 1, true);
    std::vector<Rect> eff;
    int turn = (in.flags >> 8) & 3;  // 0: N, 1: W, 2: FE, 3: S  (orientation of the cells; the obstacle rectangle is the PLACED footprint)
    std::vector<CellOrientation> orients(nCells + 1, CellOrientation::N);
    for (int i = 0; i < nCells; ++i) {
      w[i] = in.obs[i].x1 - in.obs[i].x0; h[i] = in.obs[i].y1 - in.obs[i].y0; x[i] = in.obs[i].x0; y[i] = in.obs[i].y0;
      if (turn == 1 || turn == 2) { std::swap(w[i], h[i]); orients[i] = turn == 1 ? CellOrientation::W : CellOrientation::FE; }
      if (turn == 3) orients[i] = CellOrientation::S;
      fx[i] = (in.flags >> (2 * i)) & 1;
      ob[i] = (in.flags >> (2 * i + 1)) & 1;
      if (fx[i] && ob[i]) eff.push_back({in.obs[i].x0, in.obs[i].x1, in.obs[i].y0, in.obs[i].y1});
    }
    c.setCellWidth(w); c.setCellHeight(h); c.setCellX(x); c.setCellY(y); c.setCellIsFixed(fx); c.setCellIsObstruction(ob);
    c.setCellOrientation(orients);
    // a second row far away must be reported untouched
    Row far(100, 104, 50, 50 + (row.maxY - row.minY), CellOrientation::N);
    c.setRows({r, far});
    std::vector<Rectangle> extras;
    if (extra) {
      auto &o = in.obs[n - 1];
      extras.emplace_back(o.x0, o.x1, o.y0, o.y1);
      eff.push_back({o.x0, o.x1, o.y0, o.y1});
    }
    std::vector<Row> got;
    CallResult cr = guarded([&] { got = c.computeRows(extras); });
    if (cr.threw) { out.push_back({"computeRows-throws", cr.what + " | " + enc(in)}); return out; }
    std::vector<Row> mine, other;
    for (auto &g : got) (g.minY >= 50 ? other : mine).push_back(g);
    std::string why = compare(row, eff, mine);
    if (!why.empty()) out.push_back({"computeRows:" + why, enc(in)});
    if (other.size() != 1 || other[0].minX != 100 || other[0].maxX != 104 || (int)other[0].orientation != 0)
      out.push_back({"computeRows:unrelated-row-changed", enc(in)});
    if (mine.size() != 1 || mine[0].minX != row.minX || mine[0].maxX != row.maxX) ctx.nontrivial(vf::fnv(enc(in)));
  }
  return out;
}

int main(int argc, char **argv) {
  vf::Opts o = vf::parseOpts(argc, argv);
  bool th = o.thorough() && o.pass != "san";  // the secondary sanitizer pass of the thorough tier uses the quick alphabet
  vf::Check<Inst> c;
  c.property = "C15";
  c.level = "exploration";
  c.rule =
      "row [0,4)x[0,2) N plus three variants (offset start / FS, offset y / S, height 1 / FN; on a reduced grid also translated by (1e9+7, -1e9-11)) x every set of <= 2 (thorough: 3 on a reduced grid) obstacle "
      "rectangles with corners on the grid {-1..5}x{-1..3} (min <= max, degenerate ones included) through Row::freespace; through Circuit::computeRows with the "
      "obstacles as cells carrying every fixed/obstruction flag combination and orientations N/S/W/FE (the rectangle being the placed footprint), optionally the last one as an extra obstacle, next to an unrelated row; histories on one Circuit object: computeRows, then one of 8 setters (setCellX/Y, setSolution, setCellWidth/Height, setCellIsFixed, setCellIsObstruction, setCellOrientation) changing the obstruction from rectangle A to B, then computeRows again; 8..100 obstacles in one 400-wide row (4 geometric patterns x 3 orders) through Row::freespace and as fixed cells of a circuit; every sequence of <= 3 (thorough 4) flag setters / position exchanges on two obstacle cells with computeRows after each step; oracle = "
      "column oracle (a column is free iff no non-degenerate effective obstacle meets the open column x row height): segments disjoint, full height, inside "
      "the row, same orientation, union = free columns; non-trivial = the free space differs from the whole row";
  c.bounds = th ? "triples on grid {-1,0,2,4,5}x{-1,0,1,2,3}" : "pairs on the full grid";
  c.enumerate = [=](const std::function<void(const Inst &)> &f) {
    auto rects = [](std::vector<int> xs, std::vector<int> ys) {
      std::vector<R4> v;
      for (size_t a = 0; a < xs.size(); ++a)
        for (size_t b = a; b < xs.size(); ++b)
          for (size_t cc = 0; cc < ys.size(); ++cc)
            for (size_t d = cc; d < ys.size(); ++d) v.push_back({xs[a], xs[b], ys[cc], ys[d]});
      return v;
    };
    std::vector<R4> full = rects({-1, 0, 1, 2, 3, 4, 5}, {-1, 0, 1, 2, 3});
    std::vector<R4> red = rects({-1, 0, 2, 4, 5}, {-1, 0, 1, 2, 3});
    for (int rv = 0; rv < 4; ++rv) {
      const std::vector<R4> &S = rv == 0 ? full : red;
      f(Inst{rv, {}, 0, 0});
      for (auto &a : S) f(Inst{rv, {a}, 0, 0});
      for (size_t i = 0; i < S.size(); ++i)
        for (size_t j = i; j < S.size(); ++j) f(Inst{rv, {S[i], S[j]}, 0, 0});
      if (th && rv <= 1)
        for (size_t i = 0; i < red.size(); ++i)
          for (size_t j = i; j < red.size(); ++j)
            for (size_t k = j; k < red.size(); ++k) f(Inst{rv, {red[i], red[j], red[k]}, 0, 0});
    }
    // many obstacles in one row (divide-and-conquer, sorting or chunking code only shows beyond a threshold): counts up to
    // 100, four geometric patterns, three orders; through Row::freespace (mode 0) and as fixed cells of a circuit (mode 4)
    for (int count : {8, 15, 16, 17, 31, 32, 33, 34, 47, 48, 63, 64, 65, 100})
      for (int pat = 0; pat < 4; ++pat)
        for (int order = 0; order < 3; ++order) {
          std::vector<R4> obs;
          for (int k = 0; k < count; ++k) {
            int x0 = pat == 0 ? 4 * k + 1 : (pat == 1 ? 3 * k : (pat == 2 ? 4 * k + (k % 3) : 2 * k + 1));
            int w = pat == 0 ? 2 : (pat == 1 ? 2 + k % 2 : (pat == 2 ? 1 + k % 4 : 1));
            int y0 = pat == 2 ? (k % 3) - 1 : 0, y1 = pat == 2 ? y0 + 1 + k % 2 : 2;
            obs.push_back({x0, x0 + w, y0, y1});
          }
          if (order == 1) std::reverse(obs.begin(), obs.end());
          if (order == 2) { std::vector<R4> t; for (int k = 0; k < count; ++k) t.push_back(obs[(k * 7) % count == 0 && k ? (k * 7 + 1) % count : (k * 7) % count]); std::vector<R4> u; for (int st = 0; st < 2; ++st) for (int k = st; k < count; k += 2) u.push_back(obs[k]); obs = u; }
          f(Inst{8, obs, 0, 0});
          f(Inst{8, obs, 4, 0});
        }
    // far-away coordinates (variants 4, 5): Row::freespace on singles and pairs of the reduced grid
    for (int rv = 4; rv < 6; ++rv) {
      for (auto &a : red) f(Inst{rv, {a}, 0, 0});
      for (size_t i = 0; i < red.size(); ++i)
        for (size_t j = i; j < red.size(); ++j) f(Inst{rv, {red[i], red[j]}, 0, 0});
    }
    // history on one Circuit object: query, one setter, query again
    for (int rv : {0, 1, 4})
      for (size_t i = 0; i < red.size(); ++i)
        for (size_t j = 0; j < red.size(); ++j)
          for (int op = 0; op < 8; ++op) {
            if (op >= 3 && op != 6 && j != 0) continue;  // these operations do not use B
            f(Inst{rv, {red[i], red[j]}, 2, op});
          }
    // computeRows: flag combinations
    for (int rv = 0; rv < 2; ++rv) {
      for (auto &a : full)
        for (int fl = 0; fl < 4; ++fl) { f(Inst{rv, {a}, 1, fl}); for (int t = 1; t <= 3; ++t) f(Inst{rv, {a}, 1, fl | (t << 8)}); }
      for (auto &a : full) f(Inst{rv, {a}, 1, 1 << 2});  // as extra obstacle only
      for (size_t i = 0; i < red.size(); ++i)
        for (size_t j = 0; j < red.size(); ++j)
          for (int fl = 0; fl < 16; ++fl) {
            f(Inst{rv, {red[i], red[j]}, 1, fl});
            if (fl < 4) f(Inst{rv, {red[i], red[j]}, 1, fl | (1 << 4)});  // second one as extra obstacle
          }
    }
    // histories of the flag setters on one Circuit object (mode 3): every sequence of <= 3 (thorough 4) operations over
    // {setCellIsFixed(m), setCellIsObstruction(m) for every mask m over the two obstacle cells, exchange of the two cells'
    // positions}, computeRows compared with the column oracle after every step
    {
      std::vector<R4> menu = {{1, 3, 0, 2}, {2, 5, 1, 3}, {0, 1, -1, 1}, {3, 4, 0, 2}, {-1, 2, 0, 1}, {4, 5, 0, 2}};
      int maxLen = th ? 4 : 3;
      for (int rv = 0; rv < 2; ++rv)
        for (size_t i = 0; i < menu.size(); ++i)
          for (size_t j = 0; j < menu.size(); ++j) {
            if (i == j) continue;
            if (!th && (i + 2 * j) % 3 != 0) continue;  // quick: a third of the ordered pairs
            std::vector<int> seq;
            // only maximal sequences are emitted (every prefix is checked on the way)
            std::function<void()> recMax = [&]() {
              if ((int)seq.size() == maxLen) {
                int code = 0;
                for (size_t k = seq.size(); k-- > 0;) code = code * 10 + seq[k] + 1;
                f(Inst{rv, {menu[i], menu[j]}, 3, code});
                return;
              }
              for (int op = 0; op < 9; ++op) { seq.push_back(op); recMax(); seq.pop_back(); }
            };
            recMax();
          }
    }
  };
  c.encode = enc;
  c.decode = dec;
  c.eval = eval;
  c.deadline = th ? 3000 : 300;
  return vf::runCheck(o, c);
}
