#!/usr/bin/python3
"""Reads back, with the package's own reader (pycoloquinte/coloquinte.py running on the
pure-Python stand-in for the compiled module), every benchmark directory case_<k> found
in the batch directory given as argument, and dumps what it read into case_<k>/readback.txt.

  roundtrip.py <repo> <batchdir>            round trip of exported circuits
  roundtrip.py <repo> --bindings <outfile>  consistency of the names bound in module.cpp
"""
import os
import re
import sys


def dump_circuit(mod, d):
    circ = mod.Circuit.read_ispd(d)
    out = []
    n = circ.nb_cells
    out.append("CELLS %d" % n)
    for i in range(n):
        out.append("%d %d %d %d %d %d %d" % (circ.cell_width[i], circ.cell_height[i], int(circ.cell_is_fixed[i]),
                                             int(circ.cell_is_obstruction[i]), circ.cell_x[i], circ.cell_y[i],
                                             circ.cell_orientation[i].value))
    out.append("NETS %d" % len(circ.nets))
    for cells, xs, ys, w in circ.nets:
        out.append(" ".join([str(len(cells))] + ["%d %d %d" % (c, x, y) for c, x, y in zip(cells, xs, ys)]))
    out.append("ROWS %d" % len(circ.rows))
    for r in circ.rows:
        out.append("%d %d %d %d %d" % (r.min_x, r.max_x, r.min_y, r.max_y, r.orientation.value))
    # second layer: the Python writer of placements, read back by the Python reader
    pl = os.path.join(d, "written.pl")
    circ.write_placement(pl)
    cx, cy, co = mod._read_place(pl, circ._cell_name)
    out.append("PL2 %d" % n)
    for i in range(n):
        out.append("%d %d %d" % (cx[i], cy[i], co[i].value))
    # and load_placement
    circ2 = mod.Circuit.read_ispd(d)
    circ2.load_placement(pl)
    out.append("PL3 %d" % n)
    for i in range(n):
        out.append("%d %d %d" % (circ2.cell_x[i], circ2.cell_y[i], circ2.cell_orientation[i].value))
    return out


def snake(name):
    s = re.sub(r"(?<=[a-z0-9])([A-Z])", r"_\1", name).lower()
    return s


def check_bindings(repo, outfile):
    src = open(os.path.join(repo, "pycoloquinte", "module.cpp")).read()
    header = open(os.path.join(repo, "src", "coloquinte.hpp")).read()
    lines = []
    n = 0
    # enum values: .value("NAME", Enum::MEMBER
    for m in re.finditer(r'\.value\(\s*"(\w+)"\s*,\s*(\w+)::(\w+)', src):
        n += 1
        if m.group(1) != m.group(3):
            lines.append("MISMATCH enum-value %s::%s bound as %s" % (m.group(2), m.group(3), m.group(1)))
        # the enumerator must exist in the header
        if not re.search(r"enum class %s\b[^}]*\b%s\b" % (m.group(2), m.group(3)), header, re.S):
            lines.append("MISMATCH enum-value %s::%s does not exist in coloquinte.hpp" % (m.group(2), m.group(3)))
    # every enumerator of the bound enums is reachable (no enumerator silently missing), INVALID/UNKNOWN/aliases excepted
    for em in re.finditer(r'py::enum_<(\w+)>\(m,\s*"(\w+)"\)(.*?);', src, re.S):
        enum, body = em.group(1), em.group(3)
        bound = set(x.group(1) for x in re.finditer(r"%s::(\w+)" % enum, body))
        hm = re.search(r"enum class %s\s*\{(.*?)\};" % enum, header, re.S)
        if not hm:
            lines.append("MISMATCH enum %s not found in coloquinte.hpp" % enum)
            continue
        members = re.findall(r"^\s*(\w+)\s*(?:=\s*\d+)?\s*,?\s*$", re.sub(r"//.*", "", hm.group(1)), re.M)
        for mem in members:
            if mem in ("INVALID", "UNKNOWN") or re.match(r"^(R\d+|M[XY]\d*)$", mem):
                continue
            n += 1
            if mem not in bound:
                lines.append("MISMATCH enum-value %s::%s is not bound" % (enum, mem))
    # attributes: .def_readwrite("name", &Class::member)
    for m in re.finditer(r'\.def_readwrite\(\s*"(\w+)"\s*,\s*&(\w+)::(\w+)', src):
        n += 1
        if snake(m.group(3)) != m.group(1):
            lines.append("MISMATCH attribute %s::%s bound as %s" % (m.group(2), m.group(3), m.group(1)))
    # properties: .def_property[_readonly]("name", &Class::getter[, &Class::setter]
    for m in re.finditer(r'\.def_property(_readonly)?\(\s*"(\w+)"\s*,\s*&(\w+)::(\w+)\s*(?:,\s*&(\w+)::(\w+))?', src):
        n += 1
        name, getter, setter = m.group(2), m.group(4), m.group(6)
        g = snake(getter)
        if g.startswith("compute_"):
            g = g[len("compute_"):]
        if g != name:
            lines.append("MISMATCH property getter %s::%s bound as %s" % (m.group(3), getter, name))
        if setter is not None:
            st = snake(setter)
            if not st.startswith("set_") or st[4:] != name:
                lines.append("MISMATCH property setter %s::%s bound as %s" % (m.group(5), setter, name))
    with open(outfile, "w") as f:
        f.write("BINDINGS %d\n" % n)
        for l in lines:
            f.write(l + "\n")


def main():
    repo = sys.argv[1]
    here = os.path.dirname(os.path.abspath(__file__))
    if sys.argv[2] == "--bindings":
        check_bindings(repo, sys.argv[3])
        return 0
    sys.path.insert(0, here)
    sys.path.insert(1, os.path.join(repo, "pycoloquinte"))
    import coloquinte as mod  # the package's own reader
    batch = sys.argv[2]
    for name in sorted(os.listdir(batch)):
        d = os.path.join(batch, name)
        if not os.path.isdir(d):
            continue
        try:
            out = dump_circuit(mod, d)
        except Exception as e:  # reported per case by the harness
            out = ["ERROR %s: %s" % (type(e).__name__, str(e).replace("\n", " "))]
        with open(os.path.join(d, "readback.txt"), "w") as f:
            f.write("\n".join(out) + "\n")
    return 0


if __name__ == "__main__":
    sys.exit(main())
