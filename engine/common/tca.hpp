// The tiny-circuit alphabet (TCA): finite, deterministic enumerators of small
// circuits shared by the circuit-level checks.  Primary dimensions are a full
// cross product; secondary dimensions are bounded by the number of deviations
// from the default (0, 1, 2).
#pragma once
#include "circuit.hpp"

namespace vt {
using namespace vc;

enum { oN = 0, oS = 1, oW = 2, oE = 3, oFN = 4, oFS = 5, oFW = 6, oFE = 7 };

struct Layout {
  std::string name;
  std::vector<RowSpec> rows;
  int W;       // width of the widest extent
  int nY;      // number of row ys spanned (including missing ones)
  int x0, y0;  // origin
};

inline RowSpec mkRow(int x0, int x1, int yi, int rh, int o, int ox = 0, int oy = 0) {
  return RowSpec{x0 + ox, x1 + ox, yi * rh + oy, (yi + 1) * rh + oy, o};
}

inline std::vector<Layout> layouts(int rh, bool thorough) {
  std::vector<Layout> L;
  auto add = [&](const std::string &n, std::vector<RowSpec> r, int W, int nY, int x0 = 0, int y0 = 0) {
    L.push_back({n, std::move(r), W, nY, x0, y0});
  };
  add("single", {mkRow(0, 5, 0, rh, oN)}, 5, 1);
  add("two-alt", {mkRow(0, 5, 0, rh, oN), mkRow(0, 5, 1, rh, oFS)}, 5, 2);
  add("three-alt", {mkRow(0, 5, 0, rh, oN), mkRow(0, 5, 1, rh, oFS), mkRow(0, 5, 2, rh, oN)}, 5, 3);
  add("three-uniform", {mkRow(0, 4, 0, rh, oN), mkRow(0, 4, 1, rh, oN), mkRow(0, 4, 2, rh, oN)}, 4, 3);
  add("three-S-FN", {mkRow(0, 4, 0, rh, oS), mkRow(0, 4, 1, rh, oFN), mkRow(0, 4, 2, rh, oS)}, 4, 3);
  add("split-touching", {mkRow(0, 2, 0, rh, oN), mkRow(2, 5, 0, rh, oN), mkRow(0, 5, 1, rh, oFS)}, 5, 2);
  add("split-gap", {mkRow(0, 2, 0, rh, oN), mkRow(3, 5, 0, rh, oN), mkRow(0, 5, 1, rh, oFS)}, 5, 2);
  add("missing-y", {mkRow(0, 5, 0, rh, oN), mkRow(0, 5, 2, rh, oN)}, 5, 3);
  add("ragged", {mkRow(0, 5, 0, rh, oN), mkRow(1, 5, 1, rh, oFS), mkRow(2, 4, 2, rh, oN)}, 5, 3);
  add("irregular-orient", {mkRow(0, 4, 0, rh, oN), mkRow(0, 4, 1, rh, oN), mkRow(0, 4, 2, rh, oFS)}, 4, 3);
  add("four-alt", {mkRow(0, 4, 0, rh, oN), mkRow(0, 4, 1, rh, oFS), mkRow(0, 4, 2, rh, oN), mkRow(0, 4, 3, rh, oFS)}, 4, 4);
  add("reversed-vector", {mkRow(0, 5, 2, rh, oN), mkRow(0, 5, 1, rh, oFS), mkRow(0, 5, 0, rh, oN)}, 5, 3);
  add("offset-origin", {mkRow(0, 5, 0, rh, oFS, -3, 7), mkRow(0, 5, 1, rh, oN, -3, 7)}, 5, 2, -3, 7);
  if (thorough) {
    add("wide-two", {mkRow(0, 7, 0, rh, oN), mkRow(0, 7, 1, rh, oFS)}, 7, 2);
    add("split-both", {mkRow(0, 3, 0, rh, oN), mkRow(4, 7, 0, rh, oN), mkRow(0, 2, 1, rh, oFS), mkRow(2, 7, 1, rh, oFS)}, 7, 2);
    add("three-way-split", {mkRow(0, 2, 0, rh, oN), mkRow(2, 4, 0, rh, oN), mkRow(5, 7, 0, rh, oN), mkRow(0, 7, 1, rh, oFS)}, 7, 2);
    add("permuted-split", {mkRow(0, 5, 1, rh, oFS), mkRow(2, 5, 0, rh, oN), mkRow(0, 2, 0, rh, oN)}, 5, 2);
    add("four-S", {mkRow(0, 4, 0, rh, oFN, 2, -4 * rh), mkRow(0, 4, 1, rh, oS, 2, -4 * rh), mkRow(0, 4, 2, rh, oFN, 2, -4 * rh),
                   mkRow(0, 4, 3, rh, oS, 2, -4 * rh)}, 4, 4, 2, -4 * rh);
    add("narrow", {mkRow(0, 1, 0, rh, oN), mkRow(0, 3, 1, rh, oFS)}, 3, 2);
  }
  return L;
}

// positions relative to a layout
inline std::vector<std::pair<int, int>> pointSet(const Layout &l, int rh, int level) {
  int x0 = l.x0, y0 = l.y0, W = l.W;
  std::vector<std::pair<int, int>> P = {
      {x0, y0},                          // inside, lower-left
      {x0 + W - 1, y0 + rh},             // right end, second y
      {x0 + 1, y0 + rh / 2 + (rh == 1)}, // between rows (rh>1) / on boundary
  };
  if (level >= 1) {
    P.push_back({x0 - 2, y0 - 1});                  // left / below
    P.push_back({x0 + W + 1, y0 + l.nY * rh + 1});  // right / above
  }
  if (level >= 2) {
    P.push_back({x0 + 50, y0 - 50});                // far away
    P.push_back({x0 + 2, y0 + (l.nY - 1) * rh});    // top row
    P.push_back({x0 + W - 2, y0});
    P.push_back({x0 - 40, y0 + 3 * rh});
  }
  std::sort(P.begin(), P.end());
  P.erase(std::unique(P.begin(), P.end()), P.end());
  return P;
}

struct FixedShape { std::string name; CellSpec c; };
inline std::vector<FixedShape> fixedMenu(const Layout &l, int rh) {
  int x0 = l.x0, y0 = l.y0, W = l.W, H = l.nY * rh;
  std::vector<FixedShape> m;
  auto add = [&](const std::string &n, int w, int h, int x, int y, bool obs, int orient = 0) {
    CellSpec c;
    c.w = w; c.h = h; c.x = x; c.y = y; c.fixed = true; c.obstruction = obs; c.orient = orient;
    m.push_back({n, c});
  };
  for (int obs = 1; obs >= 0; --obs) {
    add("terminal", 0, 0, x0 + 1, y0, obs);
    add("in-row-block", 1, rh, x0 + 2, y0, obs);
    if (rh > 1) add("partial-height", 1, 1, x0 + 1, y0 + rh - 1, obs);
    add("straddling", 2, rh, x0 + 1, y0 + (rh + 1) / 2, obs);
    add("full-row", W, rh, x0, y0 + (l.nY > 1 ? rh : 0), obs);
    add("enclosing", W + 2, H + 2, x0 - 1, y0 - 1, obs);
    add("outside", 2, rh, x0 + W + 2, y0, obs);
    add("left-edge", 1, 2 * rh, x0 - 1 + 1, y0, obs);
    add("turned-block", rh, 1, x0 + W - 1, y0, obs, oW);  // placed 1 x rh
    add("zero-width", 0, rh, x0 + 2, y0, obs);
    add("turned-long", 1, 3, x0 + 1, y0, obs, oE);            // raw 1x3, placed 3 wide x 1 high: the raw and the placed footprint cover different columns
    add("turned-tall", 2 * rh, 1, x0 + W - 2, y0, obs, oFW);  // raw (2rh)x1, placed 1 wide x 2rh high: covers one column of two rows
  }
  return m;
}

struct ParamAlt { int field; double value; };
inline std::vector<ParamAlt> legalizeParamMenu() {
  return {{F_orderingWidth, -1.0}, {F_orderingWidth, 0.0}, {F_orderingWidth, 0.5}, {F_orderingWidth, 1.0}, {F_orderingWidth, 2.0},
          {F_orderingY, -0.2}, {F_orderingY, 0.2}, {F_orderingHeight, 0.0}, {F_orderingHeight, 1.0}, {F_orderingHeight, -3.0}};
}
inline std::vector<ParamAlt> detailedParamMenu() {
  return {{F_nbPasses, 0}, {F_nbPasses, 1}, {F_lsNeighbours, 0}, {F_lsNeighbours, 1}, {F_lsRows, 0}, {F_lsRows, 4},
          {F_shiftNbRows, 1}, {F_shiftNbRows, 2}, {F_shiftNbRows, 5}, {F_shiftMaxNbCells, 0}, {F_shiftMaxNbCells, 2},
          {F_shiftMaxNbCells, 3}, {F_reorderingNbRows, 2}, {F_reorderingNbRows, 3}, {F_reorderingMaxNbCells, 2},
          {F_reorderingMaxNbCells, 3}, {F_reorderingMaxNbCells, 4}};
}

struct Cfg {
  std::vector<int> rhs = {2};
  int minCells = 1, maxCells = 3;
  std::vector<int> widths = {1, 2, 3};
  std::vector<int> hmults = {1, 2};
  int pointLevel = 1;
  bool thoroughLayouts = false;
  bool nondecreasing = true;   // restrict to non-decreasing (w,h) tuples
  int maxTall = 3;             // max number of multi-row cells
  std::vector<int> layoutFilter;  // empty = all
  bool diagonalPositionsOnly = false;  // only the tuples cell i -> P[i % |P|] and its mirror
};

// Base instances: rows x cell dims x positions, all cells movable, ANY, N.
inline void enumerateBase(const Cfg &cfg, const std::function<void(const Spec &, const Layout &, int rh)> &f) {
  for (int rh : cfg.rhs) {
    std::vector<Layout> Ls = layouts(rh, cfg.thoroughLayouts);
    for (size_t li = 0; li < Ls.size(); ++li) {
      if (!cfg.layoutFilter.empty() && std::find(cfg.layoutFilter.begin(), cfg.layoutFilter.end(), (int)li) == cfg.layoutFilter.end()) continue;
      const Layout &l = Ls[li];
      auto P = pointSet(l, rh, cfg.pointLevel);
      std::vector<std::pair<int, int>> dims;
      for (int w : cfg.widths)
        for (int hm : cfg.hmults) dims.push_back({w, hm * rh});
      for (int n = cfg.minCells; n <= cfg.maxCells; ++n) {
        std::vector<int> radix;
        for (int i = 0; i < n; ++i) radix.push_back(dims.size());
        for (int i = 0; i < n; ++i) radix.push_back(P.size());
        for (vf::Odometer od(radix); !od.done; od.next()) {
          bool ok = true;
          int tall = 0;
          for (int i = 0; i < n; ++i) {
            if (cfg.nondecreasing && i + 1 < n && od.v[i] > od.v[i + 1]) ok = false;
            if (dims[od.v[i]].second > rh) ++tall;
          }
          if (!ok || tall > cfg.maxTall) continue;
          if (cfg.diagonalPositionsOnly) {
            bool d1 = true, d2 = true;
            for (int i = 0; i < n; ++i) {
              if (od.v[n + i] != i % (int)P.size()) d1 = false;
              if (od.v[n + i] != (n - 1 - i) % (int)P.size()) d2 = false;
            }
            if (!d1 && !d2) continue;
          }
          Spec s;
          s.rows = l.rows;
          for (int i = 0; i < n; ++i) {
            CellSpec c;
            c.w = dims[od.v[i]].first;
            c.h = dims[od.v[i]].second;
            c.x = P[od.v[n + i]].first;
            c.y = P[od.v[n + i]].second;
            s.cells.push_back(c);
          }
          f(s, l, rh);
        }
      }
    }
  }
}

// One-step deviations of a base instance (polarity, orientation, one fixed
// cell added, one parameter changed).  Each callback gets a complete spec.
struct DevMenu {
  bool polarity = true, orientation = true, fixedCells = true, fixedFlip = true;
  std::vector<ParamAlt> params;
  std::vector<int> efforts;  // alternative efforts
};

inline void setOrientation(CellSpec &c, int o) {
  bool was = turned(c.orient), now = turned(o);
  if (was != now) std::swap(c.w, c.h);  // keep the placed size
  c.orient = o;
}

inline void enumerateDeviations(const Spec &base, const Layout &l, int rh, const DevMenu &m,
                                const std::function<void(const Spec &)> &f) {
  int n = base.cells.size();
  if (m.polarity)
    for (int i = 0; i < n; ++i)
      for (int pol = 1; pol <= 4; ++pol) {
        Spec s = base;
        s.cells[i].polarity = pol;
        f(s);
      }
  if (m.orientation)
    for (int i = 0; i < n; ++i)
      for (int o = 1; o < 8; ++o) {
        Spec s = base;
        setOrientation(s.cells[i], o);
        f(s);
      }
  if (m.fixedCells)
    for (auto &fs : fixedMenu(l, rh)) {
      Spec s = base;
      s.cells.push_back(fs.c);
      f(s);
      // the fixed cell first: exercises the parallel index of exportPlacement
      Spec s2 = base;
      s2.cells.insert(s2.cells.begin(), fs.c);
      f(s2);
    }
  if (m.fixedFlip)
    for (int i = 0; i < n; ++i)
      for (int obs = 0; obs < 2; ++obs) {
        Spec s = base;
        s.cells[i].fixed = true;
        s.cells[i].obstruction = obs;
        bool anyMovable = false;
        for (auto &c : s.cells) anyMovable |= !c.fixed;
        if (anyMovable) f(s);
      }
  for (auto &pa : m.params) {
    Spec s = base;
    s.devs.push_back({pa.field, pa.value});
    f(s);
  }
  for (int e : m.efforts) {
    Spec s = base;
    s.effort = e;
    f(s);
  }
}

// Net alphabet: a short list of net sets for n cells (indices refer to cells 0..n-1)
inline std::vector<std::vector<NetSpec>> netMenu(const Spec &s, int level) {
  int n = s.cells.size();
  std::vector<std::vector<NetSpec>> out;
  out.push_back({});
  auto pin = [&](int c, int k) -> std::array<int, 3> {
    const CellSpec &cs = s.cells[c];
    static const int ox[5] = {0, 1, -1, 0, 1}, oyk[5] = {0, 0, 1, -1, 1};
    int x = k == 3 ? cs.w : (k == 4 ? cs.w + 1 : ox[k]);
    int y = k == 3 ? cs.h : oyk[k];
    return {c, x, y};
  };
  if (n >= 2) {
    NetSpec a; a.pins = {pin(0, 0), pin(1, 1)};
    out.push_back({a});
    NetSpec b; b.pins = {pin(0, 3), pin(n - 1, 2)};
    out.push_back({a, b});
  }
  if (n >= 3) {
    NetSpec a; a.pins = {pin(0, 0), pin(1, 1), pin(2, 3)};
    NetSpec b; b.pins = {pin(2, 0), pin(0, 4)};
    out.push_back({a, b});
    NetSpec c; c.pins = {pin(1, 0), pin(1, 3), pin(2, 2)};  // repeated cell
    out.push_back({b, c});
    if (level >= 1) {
      NetSpec d; d.pins = {pin(0, 2)};  // single pin
      out.push_back({a, c, d});
      NetSpec e; e.pins = {pin(0, 1), pin(2, 1)}; e.weight = 2.0f;
      out.push_back({e, b});
    }
  }
  if (n == 1) {
    NetSpec d; d.pins = {pin(0, 1)};
    out.push_back({d});
  }
  return out;
}

// Domain of the circuit-level properties: a movable cell that declares a row polarity starts in one of the four unturned
// orientations (turned orientations are only defined for cells without polarity).
inline bool inDomain(const Spec &s) {
  for (auto &c : s.cells)
    if (!c.fixed && c.polarity != 0 && turned(c.orient)) return false;
  return true;
}

// ---- medium-size family -----------------------------------------------------
// The cross products above stop at 3-4 cells.  Code that sorts, partitions, windows or chunks its input can be right on
// every such toy and wrong beyond a threshold (more than 16 elements in a sort, a second window, a third hierarchy
// level, many equal keys).  This family is a parameter grid, enumerated completely, of circuits with 12..40 cells on
// 4..10 rows: {rows} x {cells} x {width pattern} x {position pattern} x {obstacle pattern} x {polarity pattern} x {nets}.
struct MediumCfg {
  bool polarities = true;    // include the polarity patterns
  bool tall = true;          // include patterns with two-row cells
  int stride = 1;            // take every stride-th member of the grid
};
inline void enumerateMedium(const MediumCfg &cfg, const std::function<void(const Spec &)> &f) {
  int rh = 2, idx = 0;
  for (int nRows : {4, 10})
    for (int nCells : {12, 24, 40})
      for (int wPat = 0; wPat < 3; ++wPat)          // 0 all equal (ties), 1 mixed 1..3, 2 mixed with two-row cells
        for (int pPat = 0; pPat < 4; ++pPat)        // 0 one spot, 1 spread, 2 reverse order, 3 far outside
          for (int oPat = 0; oPat < 3; ++oPat)      // 0 none, 1 fixed column cutting every row in two, 2 comb of 20 1-wide blocks in row 0
            for (int polPat = 0; polPat < 3; ++polPat)  // 0 none, 1 SAME/OPPOSITE alternating, 2 NW/SE alternating
              for (int nPat = 0; nPat < 4; ++nPat) {    // 0 none, 1 chain, 2 star on cell 0 + a terminal, 3 one net over all cells + one over 17
                if (!cfg.polarities && polPat != 0) continue;
                if (!cfg.tall && wPat == 2) continue;
                if (idx++ % cfg.stride != 0) continue;
                int W = std::max(oPat == 2 ? 52 : 24, (nCells * 5) / nRows + 6);  // the comb needs room for 20 blocks
                Spec s;
                for (int r = 0; r < nRows; ++r) s.rows.push_back(mkRow(0, W, r, rh, r % 2 ? oFS : oN));
                // every other member gives its rows top-to-bottom, every fourth in an interleaved order
                if (idx % 2 == 0) std::reverse(s.rows.begin(), s.rows.end());
                if (idx % 4 == 1) for (int r = 0; r + 2 < nRows; r += 3) std::swap(s.rows[r], s.rows[r + 2]);
                for (int i = 0; i < nCells; ++i) {
                  CellSpec c;
                  c.w = wPat == 0 ? 2 : 1 + (i * 7 + i / 3) % 3;
                  c.h = (wPat == 2 && i % 9 == 4) ? 2 * rh : rh;
                  switch (pPat) {
                    case 0: c.x = W / 2; c.y = rh * (nRows / 2); break;
                    case 1: c.x = (i * 5) % (W - 3); c.y = rh * ((i * 3) % nRows); break;
                    case 2: c.x = W - 3 - (i * 2) % (W - 3); c.y = rh * (nRows - 1 - i % nRows); break;
                    default: c.x = -40 - i; c.y = rh * nRows + 30 + (i % 5); break;
                  }
                  if (polPat == 1) c.polarity = 1 + i % 2;
                  if (polPat == 2) c.polarity = 3 + i % 2;
                  if (c.h > rh && polPat == 2) c.polarity = 0;  // NW/SE on even-height cells has no satisfying row pair here
                  s.cells.push_back(c);
                }
                if (oPat == 1) { CellSpec o; o.w = 2; o.h = rh * nRows; o.x = W / 3; o.y = 0; o.fixed = true; s.cells.push_back(o); }
                if (oPat == 2)
                  for (int k = 0; k < 20; ++k) { CellSpec o; o.w = 1; o.h = rh; o.x = 2 + 2 * k + k / 3; o.y = 0; o.fixed = true; s.cells.push_back(o); }  // row 0 in 21 segments
                if (nPat == 1)
                  for (int i = 0; i + 1 < nCells; i += 2) { NetSpec n; n.pins = {{i, 0, 0}, {i + 1, 1, 1}, {(i * 5 + 3) % nCells, 0, 1}}; s.nets.push_back(n); }
                if (nPat == 2) {
                  CellSpec t; t.w = 0; t.h = 0; t.x = W + 5; t.y = -3; t.fixed = true; s.cells.push_back(t);
                  int ti = (int)s.cells.size() - 1;
                  for (int i = 1; i < nCells; i += 3) { NetSpec n; n.pins = {{0, 1, 1}, {i, 0, 0}, {ti, 0, 0}}; n.weight = 1.0f + (i % 2); s.nets.push_back(n); }
                }
                if (nPat == 3) {
                  NetSpec all, most;
                  for (int i = 0; i < nCells; ++i) all.pins.push_back({i, i % 2, (i % 3) % 2});
                  for (int i = 0; i < 17 && i < nCells; ++i) most.pins.push_back({(i * 5) % nCells, 1, 0});
                  s.nets.push_back(all);
                  s.nets.push_back(most);
                }
                f(s);
              }
}

// ---- large family -------------------------------------------------------------
// A small grid of circuits with 120 and 400 cells on 12 and 30 rows (thresholds that lie above the medium family: more
// cells in a row group than a default shift window, hundreds of elements in every sorted container).
inline void enumerateLarge(const std::function<void(const Spec &)> &f) {
  int rh = 2;
  for (int nCells : {120, 400})
    for (int nRows : {12, 30})
      for (int wPat = 0; wPat < 3; ++wPat)
        for (int pPat = 0; pPat < 2; ++pPat)
          for (int nPat = 0; nPat < 2; ++nPat) {
            int W = (nCells * 4) / nRows + 8;
            Spec s;
            for (int r = 0; r < nRows; ++r) s.rows.push_back(mkRow(0, W, r, rh, r % 2 ? oFS : oN));
            for (int i = 0; i < nCells; ++i) {
              CellSpec c;
              c.w = wPat == 0 ? 2 : 1 + (i * 7 + i / 3) % 3;
              c.h = (wPat == 2 && i % 37 == 5) ? 2 * rh : rh;
              if (pPat == 0) { c.x = W / 2; c.y = rh * (nRows / 2); }
              else { c.x = (i * 13) % (W - 3); c.y = rh * ((i * 7) % nRows); }
              s.cells.push_back(c);
            }
            { CellSpec o; o.w = 3; o.h = rh * (nRows / 2); o.x = W / 3; o.y = 0; o.fixed = true; s.cells.push_back(o); }
            if (nPat == 1) {
              for (int i = 0; i + 1 < nCells; i += 2) { NetSpec n; n.pins = {{i, 0, 0}, {i + 1, 1, 1}, {(i * 5 + 3) % nCells, 0, 1}}; s.nets.push_back(n); }
              NetSpec big;
              for (int i = 0; i < nCells; i += 3) big.pins.push_back({i, i % 2, 0});
              s.nets.push_back(big);
            }
            f(s);
          }
}

// Primer calls for the worker processes (see verif.hpp): legalizations / detailed placements of circuits with restrictive
// polarities, many cells, a fixed cell in front, a movable macro.
inline std::vector<std::function<void()>> legalizationPrimers() {
  auto mk = [](int variant) {
    return [variant]() {
      Spec s;
      int rh = 2;
      for (int i = 0; i < 4; ++i) s.rows.push_back(mkRow(0, 14, i, rh, i % 2 ? oFS : oN));
      int n = variant == 1 ? 6 : 5;
      for (int i = 0; i < n; ++i) {
        CellSpec c;
        c.w = 1 + i % 3; c.h = rh; c.x = 2 * i; c.y = (i % 4) * rh;
        c.polarity = variant == 1 ? 3 : (variant == 2 ? 4 : (i % 2 ? 2 : 1));
        s.cells.push_back(c);
      }
      if (variant >= 2) {
        CellSpec f; f.w = 2; f.h = rh; f.x = 11; f.y = 0; f.fixed = true; f.obstruction = variant == 2;
        s.cells.insert(s.cells.begin(), f);
        CellSpec m; m.w = 2; m.h = 2 * rh; m.x = 6; m.y = 0;
        s.cells.push_back(m);
      }
      NetSpec nt; nt.pins = {{0, 0, 0}, {(int)s.cells.size() - 1, 1, 1}};
      s.nets = {nt};
      Circuit c = build(s);
      ColoquinteParameters p(3, 0);
      guarded([&] { c.legalize(p); });
      Circuit d = build(s);
      guarded([&] { d.placeDetailed(p); });
    };
  };
  // primers 4 and 5: the same on rows of height 4 and 1 (a value remembered from the first call of a process - a row height,
  // a window size - then differs from what the instances use)
  auto mkH = [](int rh) {
    return [rh]() {
      Spec s;
      for (int i = 0; i < 4; ++i) s.rows.push_back(mkRow(0, 16, i, rh, i % 2 ? oFS : oN));
      for (int i = 0; i < 6; ++i) { CellSpec c; c.w = 1 + i % 3; c.h = rh; c.x = 2 * i; c.y = (i % 4) * rh; s.cells.push_back(c); }
      NetSpec nt; nt.pins = {{0, 0, 0}, {5, 1, 0}};
      s.nets = {nt};
      ColoquinteParameters p(7, 0);
      Circuit c = build(s);
      guarded([&] { c.legalize(p); });
      Circuit d = build(s);
      guarded([&] { d.placeDetailed(p); });
      Circuit g = build(s);
      p.global.maxNbSteps = 3;
      guarded([&] { g.placeGlobal(p); });
    };
  };
  return {std::function<void()>(), mk(1), mk(2), mk(3), mkH(4), mkH(1)};
}

}  // namespace vt
