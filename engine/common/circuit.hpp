// Circuit specifications (the instances of the circuit-level checks), their
// text encoding, construction of the real Circuit / parameters, snapshots and
// the independent oracles (legality, polarity table, rotation-matrix HPWL,
// free-column computation).  None of the oracles calls the library's own
// geometry code.
#pragma once
#include <array>
#include <cmath>
#include <memory>
#include <optional>

#include "coloquinte.hpp"
#include "verif.hpp"

namespace vc {
using namespace coloquinte;

struct RowSpec { int minX, maxX, minY, maxY, orient; };
struct CellSpec {
  int w = 1, h = 1, x = 0, y = 0, orient = 0;
  bool fixed = false, obstruction = true;
  int polarity = 0;  // CellRowPolarity: ANY=0 SAME=1 OPPOSITE=2 NW=3 SE=4
};
struct NetSpec { float weight = 1.0f; std::vector<std::array<int, 3>> pins; };
struct ParamDev { int field; double value; };

struct Spec {
  std::vector<RowSpec> rows;
  std::vector<CellSpec> cells;
  std::vector<NetSpec> nets;
  int effort = 3, seed = 0;
  std::vector<ParamDev> devs;
  int aux = 0;   // check-specific selector (stage, fault index, ...)
  int aux2 = 0;
};

inline std::string encode(const Spec &s) {
  std::ostringstream o;
  o << "R " << s.rows.size();
  for (auto &r : s.rows) o << " " << r.minX << " " << r.maxX << " " << r.minY << " " << r.maxY << " " << r.orient;
  o << " C " << s.cells.size();
  for (auto &c : s.cells)
    o << " " << c.w << " " << c.h << " " << c.x << " " << c.y << " " << c.orient << " " << (int)c.fixed << " "
      << (int)c.obstruction << " " << c.polarity;
  o << " N " << s.nets.size();
  for (auto &n : s.nets) {
    o << " " << n.weight << " " << n.pins.size();
    for (auto &p : n.pins) o << " " << p[0] << " " << p[1] << " " << p[2];
  }
  o << " P " << s.effort << " " << s.seed << " " << s.devs.size();
  o.precision(17);
  for (auto &d : s.devs) o << " " << d.field << " " << d.value;
  o << " A " << s.aux << " " << s.aux2;
  return o.str();
}

inline Spec decode(const std::string &str) {
  std::istringstream in(str);
  Spec s;
  std::string tag;
  size_t n;
  in >> tag >> n;
  s.rows.resize(n);
  for (auto &r : s.rows) in >> r.minX >> r.maxX >> r.minY >> r.maxY >> r.orient;
  in >> tag >> n;
  s.cells.resize(n);
  for (auto &c : s.cells) {
    int f, ob;
    in >> c.w >> c.h >> c.x >> c.y >> c.orient >> f >> ob >> c.polarity;
    c.fixed = f;
    c.obstruction = ob;
  }
  in >> tag >> n;
  s.nets.resize(n);
  for (auto &nt : s.nets) {
    size_t k;
    in >> nt.weight >> k;
    nt.pins.resize(k);
    for (auto &p : nt.pins) in >> p[0] >> p[1] >> p[2];
  }
  in >> tag >> s.effort >> s.seed >> n;
  s.devs.resize(n);
  for (auto &d : s.devs) in >> d.field >> d.value;
  in >> tag >> s.aux >> s.aux2;
  return s;
}

inline uint64_t hashSpec(const Spec &s) { return vf::fnv(encode(s)); }

// ---- magnitude transforms -------------------------------------------------
// The properties are invariant under translation of the whole circuit and under anisotropic scaling of x (widths, x
// positions, x pin offsets) and of y (heights, row heights, y positions, y pin offsets): both map legal placements to
// legal placements and multiply wirelengths.  The tiny alphabets only reach small numbers; these transforms carry the
// same shapes to coordinates beyond 2^24 (where float loses the unit) and to products beyond 2^31.
inline Spec translated(const Spec &s, int dx, int dy) {
  Spec t = s;
  for (auto &r : t.rows) { r.minX += dx; r.maxX += dx; r.minY += dy; r.maxY += dy; }
  for (auto &c : t.cells) { c.x += dx; c.y += dy; }
  return t;
}
inline Spec scaled(const Spec &s, int sx, int sy) {
  Spec t = s;
  for (auto &r : t.rows) { r.minX *= sx; r.maxX *= sx; r.minY *= sy; r.maxY *= sy; }
  for (auto &c : t.cells) {
    bool tu = c.orient == 2 || c.orient == 3 || c.orient == 6 || c.orient == 7;  // raw width lies along y when turned
    c.w *= tu ? sy : sx;
    c.h *= tu ? sx : sy;
    c.x *= sx;
    c.y *= sy;
  }
  for (auto &n : t.nets)
    for (auto &p : n.pins) {
      const CellSpec &c = s.cells[p[0]];
      bool tu = c.orient == 2 || c.orient == 3 || c.orient == 6 || c.orient == 7;
      p[1] *= tu ? sy : sx;
      p[2] *= tu ? sx : sy;
    }
  return t;
}
struct Magnitude { int kind, a, b; };  // kind 0 translate (a,b), 1 scale (a,b)
// Wraps an instance sink: every instance is passed on, and every `every`-th one also in each magnitude variant.
inline std::function<void(const Spec &)> withMagnitudes(const std::function<void(const Spec &)> &f, int every, std::vector<Magnitude> variants,
                                                        std::function<bool(const Spec &)> eligible = nullptr) {
  auto counter = std::make_shared<long long>(0);
  return [=](const Spec &s) {
    f(s);
    if (eligible && !eligible(s)) return;
    if ((*counter)++ % every != 0) return;
    for (auto &m : variants) {
      // instances that already sit at extreme coordinates (long-net circuits) would leave the int range: not transformed
      long long lim = 1LL << 30, worst = 0;
      auto see = [&](long long v, long long k, long long add) { worst = std::max(worst, std::llabs(v * k + add)); };
      long long kx = m.kind == 0 ? 1 : m.a, ky = m.kind == 0 ? 1 : m.b, ax = m.kind == 0 ? m.a : 0, ay = m.kind == 0 ? m.b : 0;
      long long kk = std::max(kx, ky);
      for (auto &r : s.rows) { see(r.minX, kx, ax); see(r.maxX, kx, ax); see(r.minY, ky, ay); see(r.maxY, ky, ay); }
      for (auto &c : s.cells) { see(c.x, kx, ax); see(c.y, ky, ay); see((long long)c.x + c.w, kk, ax); see((long long)c.y + c.h, kk, ay); see(c.w, kk, 0); see(c.h, kk, 0); }
      for (auto &n : s.nets) for (auto &p : n.pins) { see(p[1], kk, 0); see(p[2], kk, 0); }
      if (worst >= lim) continue;
      f(m.kind == 0 ? translated(s, m.a, m.b) : scaled(s, m.a, m.b));
    }
  };
}

// ------------------------------------------------------------ parameters
enum Field {
  F_orderingWidth = 0, F_orderingY, F_orderingHeight, F_nbPasses, F_lsNeighbours, F_lsRows, F_shiftNbRows,
  F_shiftMaxNbCells, F_reorderingNbRows, F_reorderingMaxNbCells, F_legCostModel,
  F_maxNbSteps = 20, F_nbInitialSteps, F_nbStepsBeforeRL, F_gapTolerance, F_distanceTolerance, F_penaltyUpdateDistance,
  F_penaltyUpdateBackoff, F_exportBlending, F_noise,
  F_netModel = 30, F_approximationDistance, F_approximationDistanceUF, F_maxNbCG, F_cgTol,
  F_rlCostModel = 40, F_rlNbSteps, F_binSize, F_lineReoptSize, F_lineReoptOverlap, F_diagReoptSize, F_diagReoptOverlap,
  F_squareReoptSize, F_squareReoptOverlap, F_unidimensionalTransport, F_quadraticPenalty, F_sideMargin,
  F_coarseningLimit, F_rlTargetBlending,
  F_cutoffDistance = 60, F_cutoffDistanceUF, F_areaExponent, F_initialValue, F_updateFactor, F_penTargetBlending,
  F_seed = 80
};

inline const char *fieldName(int f) {
  switch (f) {
    case F_orderingWidth: return "legalization.orderingWidth";
    case F_orderingY: return "legalization.orderingY";
    case F_orderingHeight: return "legalization.orderingHeight";
    case F_nbPasses: return "detailed.nbPasses";
    case F_lsNeighbours: return "detailed.localSearchNbNeighbours";
    case F_lsRows: return "detailed.localSearchNbRows";
    case F_shiftNbRows: return "detailed.shiftNbRows";
    case F_shiftMaxNbCells: return "detailed.shiftMaxNbCells";
    case F_reorderingNbRows: return "detailed.reorderingNbRows";
    case F_reorderingMaxNbCells: return "detailed.reorderingMaxNbCells";
    case F_legCostModel: return "legalization.costModel";
    case F_maxNbSteps: return "global.maxNbSteps";
    case F_nbInitialSteps: return "global.nbInitialSteps";
    case F_nbStepsBeforeRL: return "global.nbStepsBeforeRoughLegalization";
    case F_gapTolerance: return "global.gapTolerance";
    case F_distanceTolerance: return "global.distanceTolerance";
    case F_penaltyUpdateDistance: return "global.penaltyUpdateDistance";
    case F_penaltyUpdateBackoff: return "global.penaltyUpdateBackoff";
    case F_exportBlending: return "global.exportBlending";
    case F_noise: return "global.noise";
    case F_netModel: return "global.continuousModel.netModel";
    case F_approximationDistance: return "global.continuousModel.approximationDistance";
    case F_approximationDistanceUF: return "global.continuousModel.approximationDistanceUpdateFactor";
    case F_maxNbCG: return "global.continuousModel.maxNbConjugateGradientSteps";
    case F_cgTol: return "global.continuousModel.conjugateGradientErrorTolerance";
    case F_rlCostModel: return "global.roughLegalization.costModel";
    case F_rlNbSteps: return "global.roughLegalization.nbSteps";
    case F_binSize: return "global.roughLegalization.binSize";
    case F_lineReoptSize: return "global.roughLegalization.lineReoptSize";
    case F_lineReoptOverlap: return "global.roughLegalization.lineReoptOverlap";
    case F_diagReoptSize: return "global.roughLegalization.diagReoptSize";
    case F_diagReoptOverlap: return "global.roughLegalization.diagReoptOverlap";
    case F_squareReoptSize: return "global.roughLegalization.squareReoptSize";
    case F_squareReoptOverlap: return "global.roughLegalization.squareReoptOverlap";
    case F_unidimensionalTransport: return "global.roughLegalization.unidimensionalTransport";
    case F_quadraticPenalty: return "global.roughLegalization.quadraticPenalty";
    case F_sideMargin: return "global.roughLegalization.sideMargin";
    case F_coarseningLimit: return "global.roughLegalization.coarseningLimit";
    case F_rlTargetBlending: return "global.roughLegalization.targetBlending";
    case F_cutoffDistance: return "global.penalty.cutoffDistance";
    case F_cutoffDistanceUF: return "global.penalty.cutoffDistanceUpdateFactor";
    case F_areaExponent: return "global.penalty.areaExponent";
    case F_initialValue: return "global.penalty.initialValue";
    case F_updateFactor: return "global.penalty.updateFactor";
    case F_penTargetBlending: return "global.penalty.targetBlending";
    case F_seed: return "seed";
  }
  return "?";
}

inline void applyDev(ColoquinteParameters &p, const ParamDev &d) {
  double v = d.value;
  switch (d.field) {
    case F_orderingWidth: p.legalization.orderingWidth = v; break;
    case F_orderingY: p.legalization.orderingY = v; break;
    case F_orderingHeight: p.legalization.orderingHeight = v; break;
    case F_nbPasses: p.detailed.nbPasses = (int)v; break;
    case F_lsNeighbours: p.detailed.localSearchNbNeighbours = (int)v; break;
    case F_lsRows: p.detailed.localSearchNbRows = (int)v; break;
    case F_shiftNbRows: p.detailed.shiftNbRows = (int)v; break;
    case F_shiftMaxNbCells: p.detailed.shiftMaxNbCells = (int)v; break;
    case F_reorderingNbRows: p.detailed.reorderingNbRows = (int)v; break;
    case F_reorderingMaxNbCells: p.detailed.reorderingMaxNbCells = (int)v; break;
    case F_legCostModel: p.legalization.costModel = (LegalizationModel)(int)v; break;
    case F_maxNbSteps: p.global.maxNbSteps = (int)v; break;
    case F_nbInitialSteps: p.global.nbInitialSteps = (int)v; break;
    case F_nbStepsBeforeRL: p.global.nbStepsBeforeRoughLegalization = (int)v; break;
    case F_gapTolerance: p.global.gapTolerance = v; break;
    case F_distanceTolerance: p.global.distanceTolerance = v; break;
    case F_penaltyUpdateDistance: p.global.penaltyUpdateDistance = v; break;
    case F_penaltyUpdateBackoff: p.global.penaltyUpdateBackoff = v; break;
    case F_exportBlending: p.global.exportBlending = v; break;
    case F_noise: p.global.noise = v; break;
    case F_netModel: p.global.continuousModel.netModel = (NetModelOption)(int)v; break;
    case F_approximationDistance: p.global.continuousModel.approximationDistance = v; break;
    case F_approximationDistanceUF: p.global.continuousModel.approximationDistanceUpdateFactor = v; break;
    case F_maxNbCG: p.global.continuousModel.maxNbConjugateGradientSteps = (int)v; break;
    case F_cgTol: p.global.continuousModel.conjugateGradientErrorTolerance = v; break;
    case F_rlCostModel: p.global.roughLegalization.costModel = (LegalizationModel)(int)v; break;
    case F_rlNbSteps: p.global.roughLegalization.nbSteps = (int)v; break;
    case F_binSize: p.global.roughLegalization.binSize = v; break;
    case F_lineReoptSize: p.global.roughLegalization.lineReoptSize = (int)v; break;
    case F_lineReoptOverlap: p.global.roughLegalization.lineReoptOverlap = (int)v; break;
    case F_diagReoptSize: p.global.roughLegalization.diagReoptSize = (int)v; break;
    case F_diagReoptOverlap: p.global.roughLegalization.diagReoptOverlap = (int)v; break;
    case F_squareReoptSize: p.global.roughLegalization.squareReoptSize = (int)v; break;
    case F_squareReoptOverlap: p.global.roughLegalization.squareReoptOverlap = (int)v; break;
    case F_unidimensionalTransport: p.global.roughLegalization.unidimensionalTransport = v != 0; break;
    case F_quadraticPenalty: p.global.roughLegalization.quadraticPenalty = v; break;
    case F_sideMargin: p.global.roughLegalization.sideMargin = v; break;
    case F_coarseningLimit: p.global.roughLegalization.coarseningLimit = v; break;
    case F_rlTargetBlending: p.global.roughLegalization.targetBlending = v; break;
    case F_cutoffDistance: p.global.penalty.cutoffDistance = v; break;
    case F_cutoffDistanceUF: p.global.penalty.cutoffDistanceUpdateFactor = v; break;
    case F_areaExponent: p.global.penalty.areaExponent = v; break;
    case F_initialValue: p.global.penalty.initialValue = v; break;
    case F_updateFactor: p.global.penalty.updateFactor = v; break;
    case F_penTargetBlending: p.global.penalty.targetBlending = v; break;
    case F_seed: p.seed = (int)v; break;
  }
}

inline ColoquinteParameters makeParams(const Spec &s) {
  ColoquinteParameters p(s.effort, s.seed);
  for (auto &d : s.devs) applyDev(p, d);
  return p;
}

inline bool paramsAccepted(const ColoquinteParameters &p) {
  try { p.check(); } catch (const std::exception &) { return false; }
  return true;
}

inline Circuit build(const Spec &s) {
  int n = s.cells.size();
  Circuit c(n);
  std::vector<int> w, h, x, y;
  std::vector<bool> fx, ob;
  std::vector<CellOrientation> o;
  std::vector<CellRowPolarity> pol;
  for (auto &cs : s.cells) {
    w.push_back(cs.w); h.push_back(cs.h); x.push_back(cs.x); y.push_back(cs.y);
    fx.push_back(cs.fixed); ob.push_back(cs.obstruction);
    o.push_back((CellOrientation)cs.orient);
    pol.push_back((CellRowPolarity)cs.polarity);
  }
  c.setCellWidth(w); c.setCellHeight(h); c.setCellX(x); c.setCellY(y);
  c.setCellIsFixed(fx); c.setCellIsObstruction(ob); c.setCellOrientation(o); c.setCellRowPolarity(pol);
  std::vector<Row> rows;
  for (auto &r : s.rows) rows.emplace_back(r.minX, r.maxX, r.minY, r.maxY, (CellOrientation)r.orient);
  c.setRows(rows);
  for (auto &nt : s.nets) {
    std::vector<int> cells, xo, yo;
    for (auto &p : nt.pins) { cells.push_back(p[0]); xo.push_back(p[1]); yo.push_back(p[2]); }
    c.addNet(cells, xo, yo, nt.weight);
  }
  c.hasCellSizeUpdate_ = false;
  c.hasNetUpdate_ = false;
  return c;
}

// ------------------------------------------------------------ snapshots
struct Snapshot {
  std::vector<int> netLimits, pinCells, pinX, pinY, w, h, x, y;
  std::vector<float> netWeights;
  std::vector<bool> fixed, obstruction;
  std::vector<int> polarity, orient;
  std::vector<std::array<int, 5>> rows;
};

inline Snapshot snapshot(const Circuit &c) {
  Snapshot s;
  s.netLimits = c.netLimits_; s.pinCells = c.pinCells_; s.pinX = c.pinXOffsets_; s.pinY = c.pinYOffsets_;
  s.netWeights = c.netWeights_;
  s.w = c.cellWidth(); s.h = c.cellHeight(); s.x = c.cellX(); s.y = c.cellY();
  s.fixed = c.cellIsFixed(); s.obstruction = c.cellIsObstruction();
  for (auto p : c.cellRowPolarity()) s.polarity.push_back((int)p);
  for (auto o : c.cellOrientation()) s.orient.push_back((int)o);
  for (auto &r : c.rows()) s.rows.push_back({r.minX, r.maxX, r.minY, r.maxY, (int)r.orientation});
  return s;
}

// Everything except position/orientation of movable cells
inline std::string diffStructure(const Snapshot &a, const Snapshot &b) {
  if (a.netLimits != b.netLimits) return "net-limits";
  if (a.pinCells != b.pinCells) return "pin-cells";
  if (a.pinX != b.pinX || a.pinY != b.pinY) return "pin-offsets";
  if (a.netWeights.size() != b.netWeights.size() ||
      (!a.netWeights.empty() && memcmp(a.netWeights.data(), b.netWeights.data(), a.netWeights.size() * sizeof(float)) != 0))
    return "net-weights";
  if (a.w != b.w) return "cell-width";
  if (a.h != b.h) return "cell-height";
  if (a.fixed != b.fixed) return "fixed-flags";
  if (a.obstruction != b.obstruction) return "obstruction-flags";
  if (a.polarity != b.polarity) return "polarity";
  if (a.rows != b.rows) return "rows";
  if (a.x.size() != b.x.size() || a.y.size() != b.y.size() || a.orient.size() != b.orient.size()) return "sizes";
  for (size_t i = 0; i < a.x.size(); ++i)
    if (a.fixed[i]) {
      if (a.x[i] != b.x[i] || a.y[i] != b.y[i]) return "fixed-cell-position";
      if (a.orient[i] != b.orient[i]) return "fixed-cell-orientation";
    }
  return "";
}

inline bool samePlacement(const Snapshot &a, const Snapshot &b) {
  return a.x == b.x && a.y == b.y && a.orient == b.orient;
}

// ------------------------------------------------------------ geometry oracles
inline bool turned(int orient) { return orient == 2 || orient == 3 || orient == 6 || orient == 7; }  // W E FW FE
inline int placedW(const Circuit &c, int i) { return turned((int)c.cellOrientation()[i]) ? c.cellHeight()[i] : c.cellWidth()[i]; }
inline int placedH(const Circuit &c, int i) { return turned((int)c.cellOrientation()[i]) ? c.cellWidth()[i] : c.cellHeight()[i]; }

struct Rect { long long x0, x1, y0, y1; };
inline bool openMeets(const Rect &a, const Rect &b) {  // open sets intersect; degenerate -> empty
  if (a.x0 >= a.x1 || a.y0 >= a.y1 || b.x0 >= b.x1 || b.y0 >= b.y1) return false;
  return a.x0 < b.x1 && b.x0 < a.x1 && a.y0 < b.y1 && b.y0 < a.y1;
}

inline std::vector<Rect> obstructions(const Circuit &c) {
  std::vector<Rect> r;
  for (int i = 0; i < c.nbCells(); ++i)
    if (c.cellIsFixed()[i] && c.cellIsObstruction()[i])
      r.push_back({c.cellX()[i], (long long)c.cellX()[i] + placedW(c, i), c.cellY()[i], (long long)c.cellY()[i] + placedH(c, i)});
  return r;
}

// Free columns of one row: maximal runs [a,b) of x such that no obstruction
// meets the open column (x,x+1) x (minY,maxY).  Works on breakpoints, so it
// is exact for any magnitude.
inline std::vector<std::pair<long long, long long>> freeRuns(const RowSpec &row, const std::vector<Rect> &obs) {
  std::vector<std::pair<long long, long long>> blocked;
  for (auto &o : obs) {
    Rect rr{row.minX, row.maxX, row.minY, row.maxY};
    if (!openMeets(o, rr)) continue;
    blocked.push_back({std::max<long long>(o.x0, row.minX), std::min<long long>(o.x1, row.maxX)});
  }
  std::sort(blocked.begin(), blocked.end());
  std::vector<std::pair<long long, long long>> runs;
  long long cur = row.minX;
  for (auto &b : blocked) {
    if (b.first > cur) runs.push_back({cur, b.first});
    cur = std::max(cur, b.second);
  }
  if (cur < row.maxX) runs.push_back({cur, row.maxX});
  return runs;
}

inline int rowHeightOf(const Circuit &c) { return c.rows().empty() ? 0 : c.rows()[0].maxY - c.rows()[0].minY; }

// Legality of the placement held by the circuit ("" = legal, else reason).
// `only` restricts the overlap / in-row test to the given cells (default all movable).
inline std::string legality(const Circuit &c) {
  int rh = rowHeightOf(c);
  if (rh <= 0) return "no-row";
  std::vector<Rect> obs = obstructions(c);
  std::vector<RowSpec> rows;
  for (auto &r : c.rows()) rows.push_back({r.minX, r.maxX, r.minY, r.maxY, (int)r.orientation});
  std::vector<int> mov;
  for (int i = 0; i < c.nbCells(); ++i)
    if (!c.cellIsFixed()[i]) mov.push_back(i);
  for (int i : mov) {
    long long x = c.cellX()[i], y = c.cellY()[i], w = placedW(c, i), h = placedH(c, i);
    int o = (int)c.cellOrientation()[i];
    if (o < 0 || o > 7) return "invalid-orientation";
    if (h <= 0 || h % rh != 0) return "height-not-multiple";
    for (long long ys = y; ys < y + h; ys += rh) {
      bool ok = false;
      bool yFound = false;
      for (auto &r : rows) {
        if (r.minY != ys) continue;
        yFound = true;
        if (r.minX <= x && x + w <= r.maxX) {
          // inside this row; the columns must be obstruction free
          bool clear = true;
          for (auto &ob : obs)
            if (openMeets(ob, Rect{x, x + w, r.minY, r.maxY})) clear = false;
          if (clear) ok = true;
          else return "on-obstruction";
        }
      }
      if (!yFound) return "not-on-row-boundary";
      if (!ok) return "outside-row";
    }
  }
  for (size_t a = 0; a < mov.size(); ++a)
    for (size_t b = a + 1; b < mov.size(); ++b) {
      int i = mov[a], j = mov[b];
      Rect ri{c.cellX()[i], (long long)c.cellX()[i] + placedW(c, i), c.cellY()[i], (long long)c.cellY()[i] + placedH(c, i)};
      Rect rj{c.cellX()[j], (long long)c.cellX()[j] + placedW(c, j), c.cellY()[j], (long long)c.cellY()[j] + placedH(c, j)};
      if (openMeets(ri, rj)) return "overlap";
    }
  return "";
}

// Polarity table, written from the documentation of CellRowPolarity:
// SAME -> row orientation; OPPOSITE -> N<->FS, S<->FN (E<->FW, W<->FE);
// NW -> only rows N/FN/W/FW, orientation of the row; SE -> only S/FS/E/FE.
// returns -1 for "forbidden", -2 for "keep".
inline int prescribedOrientation(int polarity, int rowOrient) {
  enum { N = 0, S = 1, W = 2, E = 3, FN = 4, FS = 5, FW = 6, FE = 7 };
  switch (polarity) {
    case 0: return -2;
    case 1: return rowOrient;
    case 2: {
      static const int opp[8] = {FS, FN, FE, FW, S, N, E, W};
      return opp[rowOrient];
    }
    case 3: return (rowOrient == N || rowOrient == FN || rowOrient == W || rowOrient == FW) ? rowOrient : -1;
    case 4: return (rowOrient == S || rowOrient == FS || rowOrient == E || rowOrient == FE) ? rowOrient : -1;
  }
  return -1;
}

// "" if every movable cell with a polarity has the prescribed orientation for
// the row under its bottom edge; cells without polarity must equal `before`.
inline std::string polarityCheck(const Circuit &c, const std::vector<int> &orientBefore) {
  for (int i = 0; i < c.nbCells(); ++i) {
    if (c.cellIsFixed()[i]) continue;
    int o = (int)c.cellOrientation()[i];
    if (o == 8) return "INVALID-orientation";
    if (o < 0 || o > 7) return "unknown-orientation";
    int pol = (int)c.cellRowPolarity()[i];
    if (pol == 0) {
      if (o != orientBefore[i]) return "any-cell-reoriented";
      continue;
    }
    // rows under the bottom edge
    bool found = false, okAny = false, forbidden = false;
    for (auto &r : c.rows()) {
      if (r.minY != c.cellY()[i]) continue;
      if (!(r.minX <= c.cellX()[i] && c.cellX()[i] < r.maxX)) continue;
      found = true;
      int want = prescribedOrientation(pol, (int)r.orientation);
      if (want == -1) forbidden = true;
      else if (want == o) okAny = true;
    }
    if (!found) return "cell-not-on-a-row";
    if (forbidden) return "cell-on-forbidden-row";
    if (!okAny) return "wrong-orientation-for-row";
  }
  return "";
}

// Rotation/mirror matrices of the DEF orientations applied to a cell of raw
// size (w,h) with a pin at raw offset (px,py): the cell rectangle and the pin
// are transformed, then the transformed rectangle's lower-left corner is
// re-anchored at the origin.
inline void orientMatrix(int o, int m[4]) {
  // N, S, W, E, FN, FS, FW, FE as 2x2 matrices (row-major)
  static const int M[8][4] = {
      {1, 0, 0, 1},    // N  : identity
      {-1, 0, 0, -1},  // S  : rotate 180
      {0, -1, 1, 0},   // W  : rotate 90 counter-clockwise
      {0, 1, -1, 0},   // E  : rotate 270 (90 clockwise)
      {-1, 0, 0, 1},   // FN : mirror about the y axis
      {1, 0, 0, -1},   // FS : mirror about the x axis
      {0, 1, 1, 0},    // FW : MX then rotate 90
      {0, -1, -1, 0},  // FE : MY then rotate 90
  };
  for (int i = 0; i < 4; ++i) m[i] = M[o][i];
}

inline void orientedPin(int o, int w, int h, int px, int py, long long &ox, long long &oy, long long &pw, long long &ph) {
  int m[4];
  orientMatrix(o, m);
  long long cx[4] = {0, w, 0, w}, cy[4] = {0, 0, h, h};
  long long minx = 1LL << 60, miny = 1LL << 60, maxx = -(1LL << 60), maxy = -(1LL << 60);
  for (int k = 0; k < 4; ++k) {
    long long tx = m[0] * cx[k] + m[1] * cy[k], ty = m[2] * cx[k] + m[3] * cy[k];
    minx = std::min(minx, tx); maxx = std::max(maxx, tx);
    miny = std::min(miny, ty); maxy = std::max(maxy, ty);
  }
  long long tx = m[0] * (long long)px + m[1] * (long long)py, ty = m[2] * (long long)px + m[3] * (long long)py;
  ox = tx - minx;
  oy = ty - miny;
  pw = maxx - minx;
  ph = maxy - miny;
}

inline long long refHpwl(const Circuit &c, bool skipSinglePin = false, long long *xPart = nullptr, long long *yPart = nullptr) {
  long long tot = 0;
  if (xPart) *xPart = 0;
  if (yPart) *yPart = 0;
  for (int n = 0; n + 1 < (int)c.netLimits_.size(); ++n) {
    int b = c.netLimits_[n], e = c.netLimits_[n + 1];
    if (e <= b) continue;
    if (skipSinglePin && e - b < 2) continue;
    long long minx = 1LL << 60, miny = 1LL << 60, maxx = -(1LL << 60), maxy = -(1LL << 60);
    for (int p = b; p < e; ++p) {
      int cell = c.pinCells_[p];
      long long ox, oy, pw, ph;
      orientedPin((int)c.cellOrientation()[cell], c.cellWidth()[cell], c.cellHeight()[cell], c.pinXOffsets_[p],
                  c.pinYOffsets_[p], ox, oy, pw, ph);
      long long X = c.cellX()[cell] + ox, Y = c.cellY()[cell] + oy;
      minx = std::min(minx, X); maxx = std::max(maxx, X);
      miny = std::min(miny, Y); maxy = std::max(maxy, Y);
    }
    tot += (maxx - minx) + (maxy - miny);
    if (xPart) *xPart += maxx - minx;
    if (yPart) *yPart += maxy - miny;
  }
  return tot;
}

// ------------------------------------------------------------ running stages
struct CallResult {
  bool threw = false, stdExc = true;
  std::string what;
};

template <class F>
CallResult guarded(F &&f) {
  CallResult r;
  try {
    f();
  } catch (const std::exception &e) {
    r.threw = true;
    r.what = e.what();
  } catch (...) {
    r.threw = true;
    r.stdExc = false;
    r.what = "non-std exception";
  }
  return r;
}

inline std::string describe(const Spec &s) {
  std::ostringstream o;
  o << "rows";
  for (auto &r : s.rows) o << " [" << r.minX << "," << r.maxX << ")x[" << r.minY << "," << r.maxY << ")o" << r.orient;
  o << "; cells";
  for (auto &c : s.cells)
    o << " {" << c.w << "x" << c.h << "@(" << c.x << "," << c.y << ")o" << c.orient << (c.fixed ? (c.obstruction ? " FIXED-OBS" : " FIXED") : "")
      << (c.polarity ? " pol" + std::to_string(c.polarity) : "") << "}";
  if (!s.nets.empty()) {
    o << "; nets";
    for (auto &n : s.nets) {
      o << " <w" << n.weight;
      for (auto &p : n.pins) o << " c" << p[0] << "+(" << p[1] << "," << p[2] << ")";
      o << ">";
    }
  }
  if (s.effort != 3 || !s.devs.empty()) {
    o << "; params effort=" << s.effort;
    for (auto &d : s.devs) o << " " << fieldName(d.field) << "=" << d.value;
  }
  return o.str();
}

inline std::string placementStr(const Circuit &c) {
  std::ostringstream o;
  for (int i = 0; i < c.nbCells(); ++i) o << (i ? " " : "") << "(" << c.cellX()[i] << "," << c.cellY()[i] << ",o" << (int)c.cellOrientation()[i] << ")";
  return o.str();
}

}  // namespace vc
