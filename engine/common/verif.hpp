// Common machinery of the checks: sharded, forked, exhaustive enumeration of a
// finite instance space with crash/hang containment, replay-before-report and
// a machine-readable result ("part") file that bin/check merges into the
// evidence file.  Nothing here samples: every instance the enumerator yields
// is evaluated unless the global deadline is hit, in which case the part file
// says exhaustive=false.
#pragma once
#include <cxxabi.h>
#include <execinfo.h>
#include <fcntl.h>
#include <signal.h>
#include <sys/mman.h>
#include <sys/stat.h>
#include <sys/wait.h>
#include <unistd.h>

#include <algorithm>
#include <chrono>
#include <cstdint>
#include <cstdio>
#include <cstdlib>
#include <cstring>
#include <fstream>
#include <functional>
#include <iostream>
#include <map>
#include <set>
#include <sstream>
#include <string>
#include <vector>

namespace vf {

inline double now_s() {
  using namespace std::chrono;
  return duration<double>(steady_clock::now().time_since_epoch()).count();
}

struct Opts {
  std::string tier = "quick", pass = "rel", part, rundir = ".", replay;
  bool hasReplay = false;
  long seed = 0;
  int jobs = 16;
  bool thorough() const { return tier == "thorough"; }
};

inline Opts parseOpts(int argc, char **argv) {
  Opts o;
  for (int i = 1; i < argc; ++i) {
    std::string a = argv[i];
    auto next = [&]() -> std::string { return i + 1 < argc ? argv[++i] : ""; };
    if (a == "--tier") o.tier = next();
    else if (a == "--pass") o.pass = next();
    else if (a == "--part") o.part = next();
    else if (a == "--rundir") o.rundir = next();
    else if (a == "--seed") o.seed = atol(next().c_str());
    else if (a == "--jobs") o.jobs = atoi(next().c_str());
    else if (a == "--replay") { o.replay = next(); o.hasReplay = true; }
  }
  if (o.jobs < 1) o.jobs = 1;
  if (o.jobs > 64) o.jobs = 64;
  return o;
}

struct Verdict {
  std::string cls;  // class key of the violation (predicate evaluated by the oracle)
  std::string msg;
  std::string inst;  // optional: encoded sub-instance to replay instead of the whole (batch) instance
};
using Verdicts = std::vector<Verdict>;

inline std::string jsonEscape(const std::string &s) {
  std::string r;
  for (unsigned char c : s) {
    if (c == '"') r += "\\\"";
    else if (c == '\\') r += "\\\\";
    else if (c == '\n') r += "\\n";
    else if (c == '\t') r += "\\t";
    else if (c < 0x20) { char b[8]; snprintf(b, sizeof b, "\\u%04x", c); r += b; }
    else r += c;
  }
  return r;
}

inline uint64_t fnv(const std::string &s, uint64_t h = 1469598103934665603ULL) {
  for (unsigned char c : s) { h ^= c; h *= 1099511628211ULL; }
  return h;
}
inline uint64_t mix(uint64_t h, uint64_t v) {
  h ^= v + 0x9e3779b97f4a7c15ULL + (h << 6) + (h >> 2);
  return h;
}

// ---------------------------------------------------------------- shared memory
struct ShmCounter { char name[160]; long long v; };
struct Shm {
  volatile long long idx;       // instance currently evaluated (-1: none)
  volatile double start;        // when it started
  volatile int done;            // child finished its enumeration
  volatile int deadlineHit;
  int nctr;
  ShmCounter ctr[96];
};

class Ctx {
 public:
  Shm *shm = nullptr;
  FILE *res = nullptr;
  FILE *nt = nullptr;
  long seed = 0;
  int nSamples = 0;
  long long curIdx = 0;
  std::map<std::string, int> slot;
  std::map<std::string, int> classSeen;
  bool replaying = false;

  void count(const std::string &fullName, long long n = 1) {
    std::string name = fullName.substr(0, 159);
    auto it = slot.find(name);
    int s;
    if (it == slot.end()) {
      s = -1;
      for (int i = 0; i < shm->nctr; ++i)
        if (name == shm->ctr[i].name) s = i;
      if (s < 0) {
        if (shm->nctr >= 96) return;
        s = shm->nctr;
        strncpy(shm->ctr[s].name, name.c_str(), 159);
        shm->ctr[s].v = 0;
        shm->nctr = s + 1;
      }
      slot[name] = s;
    } else {
      s = it->second;
    }
    shm->ctr[s].v += n;
  }
  // max-type counter
  void countMax(const std::string &name, long long v) {
    count(name, 0);
    int s = slot[name];
    if (shm->ctr[s].v < v) shm->ctr[s].v = v;
  }
  // mark the current case as a distinct non-trivial one (hash identifies it)
  void nontrivial(uint64_t h) {
    if (nt) fwrite(&h, sizeof h, 1, nt);
  }
  void sample(const std::string &s) {
    if (!res || nSamples >= 3) return;
    ++nSamples;
    fprintf(res, "S\t%s\n", esc(s).c_str());
  }
  static std::string esc(const std::string &s) {
    std::string r;
    for (char c : s) {
      if (c == '\t') r += "\\t";
      else if (c == '\n') r += "\\n";
      else if (c == '\\') r += "\\\\";
      else r += c;
    }
    return r;
  }
  static std::string unesc(const std::string &s) {
    std::string r;
    for (size_t i = 0; i < s.size(); ++i) {
      if (s[i] == '\\' && i + 1 < s.size()) {
        ++i;
        r += s[i] == 't' ? '\t' : s[i] == 'n' ? '\n' : s[i];
      } else r += s[i];
    }
    return r;
  }
};

template <class Inst>
struct Check {
  std::string property, level = "exploration", rule, bounds;
  std::vector<std::string> assumptions;
  // enumerate the finite instance space; must be deterministic
  std::function<void(const std::function<void(const Inst &)> &)> enumerate;
  std::function<std::string(const Inst &)> encode;
  std::function<Inst(const std::string &)> decode;
  // evaluate the property on one instance; empty result = holds
  std::function<Verdicts(const Inst &, Ctx &)> eval;
  // optional: calls executed once at the start of every worker process, worker k runs primers[k % size] (an empty function =
  // no primer). On code without hidden state they cannot influence any verdict; they only vary the history of the process so
  // that state leaking from one call to the next (static buffers, caches) has something to leak from.
  std::vector<std::function<void()>> primers;
  double instanceTimeout = 20.0;  // seconds; x10 on the solitary re-run
  double deadline = 3000.0;       // global, seconds
  bool replayBeforeReport = true;
};

// ---------------------------------------------------------------- child side
inline void crashHandler(int sig) {
  const char *m = "\nVERIF-SIGNAL ";
  (void)!write(2, m, strlen(m));
  char b[16];
  int n = snprintf(b, sizeof b, "%d\n", sig);
  (void)!write(2, b, n);
  void *bt[64];
  int k = backtrace(bt, 64);
  backtrace_symbols_fd(bt, k, 2);
  _exit(100 + sig);
}

inline void quietStdout() {
  int dn = open("/dev/null", O_WRONLY);
  if (dn >= 0) { dup2(dn, 1); close(dn); }
  std::cout.setstate(std::ios::failbit);
}

inline void installCrashHandlers() {
  struct sigaction sa;
  memset(&sa, 0, sizeof sa);
  sa.sa_handler = crashHandler;
  sa.sa_flags = SA_RESETHAND;
  sigaction(SIGABRT, &sa, nullptr);
#if !defined(__SANITIZE_ADDRESS__)
  sigaction(SIGSEGV, &sa, nullptr);
  sigaction(SIGBUS, &sa, nullptr);
#endif
  sigaction(SIGFPE, &sa, nullptr);
  sigaction(SIGILL, &sa, nullptr);
}

// Class key for a crashed child, from its stderr
inline std::string demangleFrame(const std::string &line) {
  // backtrace_symbols format: path(_ZN...+0x12) [0x..]
  size_t a = line.find('('), b = line.find('+', a == std::string::npos ? 0 : a);
  if (a == std::string::npos || b == std::string::npos || b <= a + 1) return "";
  std::string m = line.substr(a + 1, b - a - 1);
  int st = 0;
  char *d = abi::__cxa_demangle(m.c_str(), nullptr, nullptr, &st);
  std::string r = (st == 0 && d) ? d : m;
  free(d);
  return r;
}

inline std::string shortFunc(std::string f) {
  // keep "coloquinte::Class::method"
  size_t p = f.find("coloquinte::");
  if (p == std::string::npos) {
    p = f.find("Transportation1d");
    if (p == std::string::npos) return "";
  }
  std::string r;
  int depth = 0;
  for (size_t i = p; i < f.size(); ++i) {
    char c = f[i];
    if (c == '<') depth++;
    if (depth == 0 && (c == '(' || c == ' ')) break;
    if (depth == 0) r += c;
    if (c == '>') depth--;
  }
  return r;
}

inline std::string classifyCrash(const std::string &err, int status) {
  std::istringstream in(err);
  std::string line, kind, func, assertExpr;
  std::vector<std::string> lines;
  while (std::getline(in, line)) lines.push_back(line);
  for (const std::string &l : lines) {
    size_t p;
    if (kind.empty() && (p = l.find("ERROR: AddressSanitizer: ")) != std::string::npos) {
      std::string k = l.substr(p + 25);
      k = k.substr(0, k.find(' '));
      kind = "asan-" + k;
    }
    if (kind.empty() && (p = l.find("WARNING: ThreadSanitizer: ")) != std::string::npos) {
      std::string k = l.substr(p + 26);
      k = k.substr(0, k.find(" ("));
      for (char &ch : k) if (ch == ' ') ch = '-';
      kind = "tsan-" + k;
    }
    if (kind.empty() && l.rfind("==", 0) == 0) {
      static const char *vgKinds[][2] = {{"depends on uninitialised value", "memcheck-uninitialised-value"}, {"Use of uninitialised value", "memcheck-uninitialised-value"},
                                         {"Invalid read", "memcheck-invalid-read"}, {"Invalid write", "memcheck-invalid-write"},
                                         {"points to uninitialised byte", "memcheck-uninitialised-syscall-param"}, {"Invalid free", "memcheck-invalid-free"},
                                         {"Mismatched free", "memcheck-mismatched-free"}, {"overlap in mem", "memcheck-overlap"}};
      for (auto &vk : vgKinds)
        if (l.find(vk[0]) != std::string::npos) { kind = vk[1]; break; }
    }
    if (kind.empty() && (p = l.find("runtime error: ")) != std::string::npos) {
      std::string k = l.substr(p + 15);
      // keep the first 4 words, drop numbers
      std::string w, out;
      std::istringstream ws(k);
      int n = 0;
      while (ws >> w && n < 4) {
        bool num = !w.empty() && (isdigit((unsigned char)w[0]) || w[0] == '-');
        if (num) break;
        out += (n ? "-" : "") + w;
        ++n;
      }
      kind = "ubsan-" + out;
      // file of the report
      size_t q = l.find("/src/");
      if (q != std::string::npos) {
        std::string f = l.substr(q + 5);
        f = f.substr(0, f.find(':'));
        if (func.empty()) func = f;
      }
    }
    if (kind.empty() && (p = l.find("Assertion `")) != std::string::npos) {
      size_t e = l.find("' failed", p);
      assertExpr = l.substr(p + 11, e == std::string::npos ? std::string::npos : e - p - 11);
      kind = "assert";
      size_t q = l.find("/src/");
      if (q != std::string::npos) {
        std::string f = l.substr(q + 5);
        f = f.substr(0, f.find(':'));
        func = f;
      }
    }
    if (kind.empty() && l.find("Assertion '") != std::string::npos && l.find("failed") != std::string::npos) {
      kind = "glibcxx-assert";
    }
    if (kind.empty() && l.find("terminate called") != std::string::npos) kind = "terminate";
    if (kind.empty() && l.find("VERIF-SIGNAL ") != std::string::npos) {
      kind = "signal-" + l.substr(l.find("VERIF-SIGNAL ") + 13);
    }
  }
  // first frame inside the library
  if (func.empty() || kind == "glibcxx-assert" || kind.rfind("asan", 0) == 0 || kind.rfind("signal", 0) == 0 || kind.rfind("tsan", 0) == 0 || kind.rfind("memcheck", 0) == 0) {
    std::string f2;
    for (const std::string &l : lines) {
      std::string f;
      if (l.rfind("==", 0) == 0 && (l.find("   at 0x") != std::string::npos || l.find("   by 0x") != std::string::npos)) {
        size_t p = l.find(": ");
        if (p != std::string::npos) f = shortFunc(l.substr(p + 2));
      } else if (l.find("    #") != std::string::npos || l.find(" in ") != std::string::npos) {
        size_t p = l.find(" in ");
        if (p != std::string::npos) f = shortFunc(l.substr(p + 4));
      }
      if (f.empty() && l.find('(') != std::string::npos && l.find("[0x") != std::string::npos) {
        f = shortFunc(demangleFrame(l));
      }
      if (!f.empty()) { f2 = f; break; }
    }
    if (!f2.empty()) func = f2;
  }
  if (kind.empty()) {
    if (WIFSIGNALED(status)) kind = "signal-" + std::to_string(WTERMSIG(status));
    else kind = "exit-" + std::to_string(WEXITSTATUS(status));
  }
  std::string r = "crash:" + kind;
  if (!assertExpr.empty()) r += ":" + assertExpr;
  if (!func.empty()) r += "@" + func;
  for (char &c : r) if (c == '\t' || c == '\n') c = ' ';
  return r;
}

inline std::string readFile(const std::string &p, size_t maxBytes = 1 << 20) {
  std::ifstream f(p, std::ios::binary);
  std::string s((std::istreambuf_iterator<char>(f)), std::istreambuf_iterator<char>());
  if (s.size() > maxBytes) s = s.substr(0, maxBytes);
  return s;
}

// ---------------------------------------------------------------- result
struct Violation { std::string cls, inst, msg; };

struct Result {
  std::map<std::string, long long> counters;
  std::vector<std::string> samples;
  std::vector<Violation> violations;  // capped per class
  std::map<std::string, long long> classCounts;
  long long distinct = 0;
  bool exhaustive = true;
  std::string harnessError;
  double wall = 0;
};

template <class Inst>
void writePart(const Opts &o, const Check<Inst> &c, const Result &r) {
  if (o.part.empty()) return;
  std::ofstream f(o.part);
  f << "{\n \"property\": \"" << c.property << "\",\n \"level\": \"" << c.level << "\",\n";
  f << " \"tier\": \"" << o.tier << "\",\n \"exhaustive\": " << (r.exhaustive ? "true" : "false") << ",\n";
  f << " \"rule\": \"" << jsonEscape(c.rule) << "\",\n \"bounds\": \"" << jsonEscape(c.bounds) << "\",\n";
  f << " \"wall_s\": " << r.wall << ",\n \"distinct_nontrivial\": " << r.distinct << ",\n";
  if (!r.harnessError.empty()) f << " \"harness_error\": \"" << jsonEscape(r.harnessError) << "\",\n";
  f << " \"assumptions\": [";
  for (size_t i = 0; i < c.assumptions.size(); ++i) f << (i ? ", " : "") << "\"" << jsonEscape(c.assumptions[i]) << "\"";
  f << "],\n \"counters\": {";
  bool first = true;
  for (auto &kv : r.counters) { f << (first ? "" : ", ") << "\"" << jsonEscape(kv.first) << "\": " << kv.second; first = false; }
  f << "},\n \"class_counts\": {";
  first = true;
  for (auto &kv : r.classCounts) { f << (first ? "" : ", ") << "\"" << jsonEscape(kv.first) << "\": " << kv.second; first = false; }
  f << "},\n \"samples\": [";
  for (size_t i = 0; i < r.samples.size(); ++i) f << (i ? ", " : "") << "\"" << jsonEscape(r.samples[i]) << "\"";
  f << "],\n \"violations\": [";
  for (size_t i = 0; i < r.violations.size(); ++i) {
    const Violation &v = r.violations[i];
    f << (i ? ",\n  " : "\n  ") << "{\"class\": \"" << jsonEscape(v.cls) << "\", \"instance\": \"" << jsonEscape(v.inst)
      << "\", \"msg\": \"" << jsonEscape(v.msg) << "\"}";
  }
  f << "]\n}\n";
}

inline bool samplesEmpty(const Result &r) { return r.samples.empty(); }

// Evaluate a single instance in a fresh forked child; returns verdict classes
// (crash/hang included).  Used for replay and for solitary re-runs.
template <class Inst>
std::vector<Violation> evalIsolated(const Opts &o, const Check<Inst> &c, const Inst &inst, double limit,
                                    const std::string &tag) {
  std::string resPath = o.rundir + "/" + o.pass + "-iso-" + tag + ".res";
  std::string errPath = o.rundir + "/" + o.pass + "-iso-" + tag + ".err";
  Shm *shm = (Shm *)mmap(nullptr, sizeof(Shm), PROT_READ | PROT_WRITE, MAP_SHARED | MAP_ANONYMOUS, -1, 0);
  memset((void *)shm, 0, sizeof(Shm));
  fflush(nullptr);
  pid_t pid = fork();
  if (pid == 0) {
    int efd = open(errPath.c_str(), O_WRONLY | O_CREAT | O_TRUNC, 0644);
    if (efd >= 0) { dup2(efd, 2); close(efd); }
    quietStdout();
    installCrashHandlers();
    Ctx ctx;
    ctx.shm = shm;
    ctx.seed = o.seed;
    ctx.replaying = true;
    ctx.res = fopen(resPath.c_str(), "w");
    Verdicts vs = c.eval(inst, ctx);
    for (auto &v : vs) fprintf(ctx.res, "V\t%s\t%s\n", Ctx::esc(v.cls).c_str(), Ctx::esc(v.msg).c_str());
    fprintf(ctx.res, "DONE\n");
    fclose(ctx.res);
    _exit(0);
  }
  double t0 = now_s();
  int status = 0;
  bool killed = false;
  while (true) {
    pid_t w = waitpid(pid, &status, WNOHANG);
    if (w == pid) break;
    if (now_s() - t0 > limit) { kill(pid, SIGKILL); waitpid(pid, &status, 0); killed = true; break; }
    usleep(2000);
  }
  munmap((void *)shm, sizeof(Shm));
  std::vector<Violation> out;
  std::string enc = c.encode(inst);
  std::string res = readFile(resPath);
  bool done = false;
  std::istringstream in(res);
  std::string line;
  while (std::getline(in, line)) {
    if (line == "DONE") done = true;
    if (line.rfind("V\t", 0) == 0) {
      size_t p = line.find('\t', 2);
      out.push_back({Ctx::unesc(line.substr(2, p - 2)), enc, p == std::string::npos ? "" : Ctx::unesc(line.substr(p + 1))});
    }
  }
  if (killed) out.push_back({"hang", enc, "did not finish within " + std::to_string(limit) + " s"});
  else if (!done) {
    std::string err = readFile(errPath);
    if (const char *vgp = getenv("VERIF_VALGRIND_LOG_PREFIX")) {
      std::string vgLog = std::string(vgp) + std::to_string(pid) + ".log";
      err += readFile(vgLog);
      unlink(vgLog.c_str());
    }
    out.push_back({classifyCrash(err, status), enc, err.substr(0, 1500)});
  }
  unlink(resPath.c_str());
  unlink(errPath.c_str());
  return out;
}

template <class Inst>
int runCheck(const Opts &o, Check<Inst> &c) {
  double t0 = now_s();
  Result R;
  if (o.hasReplay) {
    Inst inst = c.decode(o.replay);
    auto a = evalIsolated(o, c, inst, c.instanceTimeout * 10, "r1");
    auto b = evalIsolated(o, c, inst, c.instanceTimeout * 10, "r2");
    std::set<std::string> ca, cb;
    for (auto &v : a) ca.insert(v.cls);
    for (auto &v : b) cb.insert(v.cls);
    if (ca != cb) R.harnessError = "replay not deterministic";
    for (auto &v : a) { R.violations.push_back(v); R.classCounts[v.cls]++; }
    R.counters["evaluations"] = 1;
    R.distinct = 2;
    R.samples.push_back(o.replay);
    R.wall = now_s() - t0;
    writePart(o, c, R);
    for (auto &v : a) fprintf(stderr, "replay verdict: %s | %s\n", v.cls.c_str(), v.msg.substr(0, 400).c_str());
    if (a.empty()) fprintf(stderr, "replay verdict: property holds on this instance\n");
    return a.empty() ? 0 : 1;
  }

  int n = o.jobs;
  Shm *shm = (Shm *)mmap(nullptr, sizeof(Shm) * n, PROT_READ | PROT_WRITE, MAP_SHARED | MAP_ANONYMOUS, -1, 0);
  memset((void *)shm, 0, sizeof(Shm) * n);
  std::vector<pid_t> pids(n, -1);
  std::vector<long long> resume(n, 0);
  std::vector<char> finished(n, 0);
  double deadlineAt = t0 + c.deadline;
  auto resPath = [&](int k) { return o.rundir + "/" + o.pass + "-shard-" + std::to_string(k) + ".res"; };
  auto errPath = [&](int k) { return o.rundir + "/" + o.pass + "-shard-" + std::to_string(k) + ".err"; };
  auto ntPath = [&](int k) { return o.rundir + "/" + o.pass + "-shard-" + std::to_string(k) + ".nt"; };
  for (int k = 0; k < n; ++k) { unlink(resPath(k).c_str()); unlink(ntPath(k).c_str()); }

  auto spawn = [&](int k) {
    shm[k].idx = -1;
    shm[k].done = 0;
    shm[k].start = now_s();
    fflush(nullptr);
    pid_t pid = fork();
    if (pid == 0) {
      int efd = open(errPath(k).c_str(), O_WRONLY | O_CREAT | O_TRUNC, 0644);
      if (efd >= 0) { dup2(efd, 2); close(efd); }
      quietStdout();
      installCrashHandlers();
      Ctx ctx;
      ctx.shm = &shm[k];
      ctx.seed = o.seed;
      ctx.res = fopen(resPath(k).c_str(), "a");
      ctx.nt = fopen(ntPath(k).c_str(), "ab");
      long long idx = 0, from = resume[k];
      bool stop = false;
      if (!c.primers.empty() && c.primers[k % c.primers.size()]) {
        shm[k].start = now_s();
        try { c.primers[k % c.primers.size()](); } catch (...) {}
      }
      long long sampleStride = 997 + (o.seed % 89);
      c.enumerate([&](const Inst &inst) {
        long long i = idx++;
        if (stop || i % n != k || i < from) return;
        if (now_s() > deadlineAt) { stop = true; shm[k].deadlineHit = 1; return; }
        shm[k].start = now_s();
        shm[k].idx = i;
        ctx.curIdx = i;
        Verdicts vs = c.eval(inst, ctx);
        shm[k].idx = -1;
        ctx.count("evaluations");
        if ((i / n + o.seed) % sampleStride == 0) ctx.sample(c.encode(inst));
        for (auto &v : vs) {
          int &seen = ctx.classSeen[v.cls];
          ctx.count("violations:" + v.cls);
          if (seen < 4) {
            fprintf(ctx.res, "V\t%s\t%s\t%s\n", Ctx::esc(v.cls).c_str(),
                    Ctx::esc(v.inst.empty() ? c.encode(inst) : v.inst).c_str(), Ctx::esc(v.msg).c_str());
            fflush(ctx.res);
          }
          ++seen;
        }
      });
      fprintf(ctx.res, "DONE\n");
      fclose(ctx.res);
      fclose(ctx.nt);
      shm[k].done = 1;
      _exit(0);
    }
    pids[k] = pid;
  };

  // idx -> instance (parent side, by re-enumeration)
  struct StopEnumeration {};
  auto instanceAt = [&](long long want, Inst &out) -> bool {
    long long idx = 0;
    bool found = false;
    try {
      c.enumerate([&](const Inst &inst) {
        if (idx++ == want) { out = inst; found = true; throw StopEnumeration(); }
      });
    } catch (const StopEnumeration &) {
    }
    return found;
  };

  std::vector<Violation> crashViol;
  for (int k = 0; k < n; ++k) spawn(k);
  int live = n;
  int crashes = 0, hangs = 0, confirmedHangs = 0, slowInstances = 0;
  const int maxHangs = 3;
  while (live > 0) {
    bool progressed = false;
    for (int k = 0; k < n; ++k) {
      if (pids[k] < 0) continue;
      int status = 0;
      pid_t w = waitpid(pids[k], &status, WNOHANG);
      bool hung = false;
      if (w == 0) {
        long long idx = shm[k].idx;
        if (idx >= 0 && now_s() - shm[k].start > c.instanceTimeout) {
          kill(pids[k], SIGKILL);
          waitpid(pids[k], &status, 0);
          hung = true;
        } else continue;
      }
      progressed = true;
      if (!hung && WIFEXITED(status) && WEXITSTATUS(status) == 0 && shm[k].done) {
        pids[k] = -1;
        --live;
        continue;
      }
      // crash or hang while evaluating shm[k].idx
      long long idx = shm[k].idx;
      std::string err = readFile(errPath(k));
      if (const char *vgp = getenv("VERIF_VALGRIND_LOG_PREFIX")) {
        std::string vgLog = std::string(vgp) + std::to_string(pids[k]) + ".log";
        err += readFile(vgLog);
        unlink(vgLog.c_str());
      }
      ++crashes;
      Inst inst;
      if (idx >= 0 && instanceAt(idx, inst)) {
        std::string cls;
        std::string msg;
        if (hung) {
          // every timed-out instance is re-run alone with a much longer limit (ten times, at most five minutes more) before it is
          // called a hang: an instance that finishes there was merely slow (16 workers, sanitizer) and is only counted; after
          // maxHangs confirmed hangs the pass stops (what was covered so far is reported, exhaustive = false)
          double longer = std::min(c.instanceTimeout * 10.0, c.instanceTimeout + 300.0);
          auto again = evalIsolated(o, c, inst, longer, "hang" + std::to_string(k));
          bool stillHangs = false;
          for (auto &v : again) {
            if (v.cls == "hang") { ++confirmedHangs; stillHangs = true; }
            crashViol.push_back(v);
          }
          if (stillHangs) ++hangs;
          else if (++slowInstances > 64) { ++hangs; }  // merely slow instances: tolerated, but not without bound
        } else {
          cls = classifyCrash(err, status);
          crashViol.push_back({cls, c.encode(inst), err.substr(0, 1500)});
        }
        resume[k] = idx + 1;
      } else {
        R.harnessError = "worker " + std::to_string(k) + " died outside an evaluation: " + err.substr(0, 500);
        pids[k] = -1;
        --live;
        continue;
      }
      if (crashes > 48 || hangs >= maxHangs) {
        // enough evidence: stop the whole pass (what was covered so far is reported, exhaustive = false)
        R.exhaustive = false;
        pids[k] = -1;
        --live;
        for (int j = 0; j < n; ++j)
          if (pids[j] > 0) {
            kill(pids[j], SIGKILL);
            int st2;
            waitpid(pids[j], &st2, 0);
            pids[j] = -1;
            --live;
          }
        continue;
      }
      spawn(k);
    }
    if (!progressed) usleep(5000);
  }

  // merge
  for (int k = 0; k < n; ++k) {
    for (int i = 0; i < shm[k].nctr; ++i) {
      std::string name = shm[k].ctr[i].name;
      if (name.rfind("max:", 0) == 0) R.counters[name] = std::max(R.counters[name], shm[k].ctr[i].v);
      else R.counters[name] += shm[k].ctr[i].v;
    }
    if (shm[k].deadlineHit) R.exhaustive = false;
    std::string res = readFile(resPath(k), 64 << 20);
    std::istringstream in(res);
    std::string line;
    while (std::getline(in, line)) {
      if (line.rfind("S\t", 0) == 0 && R.samples.size() < 8) R.samples.push_back(Ctx::unesc(line.substr(2)));
      if (line.rfind("V\t", 0) == 0) {
        size_t p1 = line.find('\t', 2), p2 = line.find('\t', p1 + 1);
        Violation v{Ctx::unesc(line.substr(2, p1 - 2)), Ctx::unesc(line.substr(p1 + 1, p2 - p1 - 1)),
                    Ctx::unesc(line.substr(p2 + 1))};
        R.violations.push_back(v);
      }
    }
    unlink(resPath(k).c_str());
    unlink(errPath(k).c_str());
  }
  // class counts from counters
  std::map<std::string, long long> cc;
  for (auto it = R.counters.begin(); it != R.counters.end();) {
    if (it->first.rfind("violations:", 0) == 0) {
      cc[it->first.substr(11)] += it->second;  // (class names longer than 148 chars are truncated in the counters)
      it = R.counters.erase(it);
    } else ++it;
  }
  for (auto &v : crashViol) { R.violations.push_back(v); cc[v.cls]++; }
  R.classCounts = cc;
  if (crashes > 48 || hangs >= maxHangs) R.exhaustive = false;
  R.counters["worker_crashes_or_hangs"] = crashes;
  R.counters["slow_instances_that_finished_on_the_solitary_rerun"] = slowInstances;
  // distinct non-trivial
  {
    std::vector<uint64_t> all;
    for (int k = 0; k < n; ++k) {
      std::string s = readFile(ntPath(k), 1ULL << 31);
      size_t m = s.size() / 8;
      size_t base = all.size();
      all.resize(base + m);
      if (m > 0) memcpy(all.data() + base, s.data(), m * 8);
      unlink(ntPath(k).c_str());
    }
    std::sort(all.begin(), all.end());
    all.erase(std::unique(all.begin(), all.end()), all.end());
    R.distinct = (long long)all.size();
  }
  // keep at most 3 witnesses per class, sorted for determinism
  std::stable_sort(R.violations.begin(), R.violations.end(),
                   [](const Violation &a, const Violation &b) { return a.cls < b.cls || (a.cls == b.cls && a.inst.size() < b.inst.size()); });
  {
    std::vector<Violation> kept;
    std::map<std::string, int> per;
    for (auto &v : R.violations)
      if (per[v.cls]++ < 3) kept.push_back(v);
    R.violations = kept;
  }
  // replay-before-report: first witness of each class, semantic classes only
  if (c.replayBeforeReport) {
    std::set<std::string> doneCls;
    int replays = 0;
    for (auto &v : R.violations) {
      if (doneCls.count(v.cls) || replays >= 12) continue;
      if (v.cls == "hang") continue;  // already confirmed by the solitary re-run with the tenfold limit
      doneCls.insert(v.cls);
      ++replays;
      Inst inst = c.decode(v.inst);
      if (c.encode(inst) != v.inst) { R.harnessError = "encode/decode mismatch on " + v.inst; break; }
      auto again = evalIsolated(o, c, inst, c.instanceTimeout * 10, "rb");
      bool same = false;
      for (auto &w : again) if (w.cls == v.cls) same = true;
      if (!same) {
        // The verdict was produced by the real code inside a worker that had evaluated other instances before, and does
        // not recur in a fresh process: the outcome depends on the history of the process (state left behind by earlier
        // calls). That is a property of the code under test, not of the harness (whose determinism is established on the
        // unchanged tree), so the violation stands; it is only marked.
        v.msg = "[depends on earlier evaluations in the same process: not reproduced by a solitary replay] " + v.msg;
        R.counters["violations_not_reproduced_in_isolation"]++;
        continue;
      }
      R.counters["violations_replayed"]++;
    }
  }
  if (samplesEmpty(R)) {
    Inst first;
    if (instanceAt(0, first)) R.samples.push_back(c.encode(first));
  }
  munmap((void *)shm, sizeof(Shm) * n);
  R.wall = now_s() - t0;
  writePart(o, c, R);
  return R.violations.empty() && R.harnessError.empty() ? 0 : 1;
}

// ---------------------------------------------------------------- small helpers
// odometer over a list of radices
struct Odometer {
  std::vector<int> radix, v;
  bool done = false;
  explicit Odometer(std::vector<int> r) : radix(std::move(r)), v(radix.size(), 0) {
    for (int x : radix) if (x <= 0) done = true;
  }
  void next() {
    for (size_t i = 0; i < v.size(); ++i) {
      if (++v[i] < radix[i]) return;
      v[i] = 0;
    }
    done = true;
  }
};

template <class T>
std::string joinInts(const std::vector<T> &v, char sep = ',') {
  std::string r;
  for (size_t i = 0; i < v.size(); ++i) {
    if (i) r += sep;
    r += std::to_string(v[i]);
  }
  return r;
}

inline std::vector<long long> splitInts(const std::string &s, char sep = ',') {
  std::vector<long long> r;
  std::string cur;
  for (char c : s) {
    if (c == sep) { if (!cur.empty()) r.push_back(atoll(cur.c_str())); cur.clear(); }
    else cur += c;
  }
  if (!cur.empty()) r.push_back(atoll(cur.c_str()));
  return r;
}

inline std::vector<std::string> splitStr(const std::string &s, char sep) {
  std::vector<std::string> r;
  std::string cur;
  for (char c : s) {
    if (c == sep) { r.push_back(cur); cur.clear(); }
    else cur += c;
  }
  r.push_back(cur);
  return r;
}

}  // namespace vf
