// Shared exploration of detailed placement for C02 (legality), C04 (polarity)
// and C05 (wirelength): (a) top-level Circuit::placeDetailed with a callback
// observing every exposed state, (b) explicit-state search over the real
// DetailedPlacement swap/insert moves, (c) explicit-state search over the real
// DetailedPlacer passes.
#pragma once
#include <deque>
#include <unordered_map>
#include <unordered_set>

#include "place_detailed/detailed_placement.hpp"
#include "place_detailed/place_detailed.hpp"
#include "tca.hpp"

namespace vd {
using namespace vt;

enum Mode { M_C02 = 2, M_C04 = 4, M_C05 = 5, M_C09 = 9 };  // M_C09: only the consistency of DetailedPlacer::value() with the from-scratch wirelength

struct Sink {
  vf::Verdicts out;
  std::set<std::string> seen;
  void add(const std::string &cls, const std::string &msg) {
    if (seen.insert(cls).second) out.push_back({cls, msg});
  }
};

// ------------------------------------------------------------------ (a) top level
inline void evalTopLevel(const Spec &s, vf::Ctx &ctx, Mode mode, Sink &sink) {
  ColoquinteParameters params = makeParams(s);
  if (!paramsAccepted(params)) { ctx.count("skipped_rejected_params"); return; }
  // does legalization alone accept the circuit?
  Circuit leg = build(s);
  CallResult lr = guarded([&] { leg.legalize(params); });
  if (lr.threw) { ctx.count("legalize_refuses"); }
  if (!lr.threw && !legality(leg).empty()) { ctx.count("legalize_result_illegal_skipped"); return; }  // C01's business
  Circuit c = build(s);
  int rh = rowHeightOf(c);
  std::vector<int> orientInput;
  for (auto o : c.cellOrientation()) orientInput.push_back((int)o);
  int nCb = 0;
  std::vector<int> tallX, tallY, tallO;
  std::vector<int> firstOrient;
  long long firstHpwl = 0, prevHpwl = 0, prevFrozen = 0;
  bool prevFlipped = false;
  // wirelength with every movable cell kept in the orientation it had at the first
  // Detailed callback: exactly what the optimiser's incremental model measures
  auto frozenHpwl = [&]() {
    Circuit f = c;
    for (int i = 0; i < f.nbCells(); ++i)
      if (!f.cellIsFixed()[i]) f.cellOrientation_[i] = (CellOrientation)firstOrient[i];
    return refHpwl(f);
  };
  auto flippedNow = [&]() {
    for (int i = 0; i < c.nbCells(); ++i)
      if (!c.cellIsFixed()[i] && (int)c.cellOrientation()[i] != firstOrient[i]) return true;
    return false;
  };
  auto observe = [&](const char *where) {
    if (mode == M_C02) {
      std::string why = legality(c);
      if (!why.empty())
        sink.add(std::string("illegal-") + where + ":" + why,
                 "placement exposed " + std::string(where) + " #" + std::to_string(nCb) + " is illegal (" + why + "): " + placementStr(c) + " | " + describe(s));
      for (int i = 0; i < c.nbCells(); ++i) {
        if (c.cellIsFixed()[i] || placedH(c, i) == rh) continue;
        if (nCb == 0 && std::string(where) == "at-callback") continue;
        if (c.cellX()[i] != tallX[i] || c.cellY()[i] != tallY[i] || (int)c.cellOrientation()[i] != tallO[i])
          sink.add("multi-row-cell-moved", "cell " + std::to_string(i) + " moved after legalization: " + placementStr(c) + " | " + describe(s));
      }
    }
    if (mode == M_C04) {
      std::string why = polarityCheck(c, orientInput);
      if (!why.empty())
        sink.add(std::string("polarity-") + where + ":" + why,
                 "orientation rule broken " + std::string(where) + " #" + std::to_string(nCb) + " (" + why + "): " + placementStr(c) + " | " + describe(s));
    }
    if (mode == M_C05) {
      long long h = c.hpwl();
      if (nCb == 0 && std::string(where) == "at-callback") {
        firstHpwl = prevHpwl = prevFrozen = h;
      } else {
        bool fl = flippedNow();
        long long fz = frozenHpwl();
        // the recorded finding: the real wirelength rises although the wirelength measured with the
        // legalized orientations (the optimiser's model) does not, and a cell changed orientation
        std::string suffix = ((fl || prevFlipped) && fz <= prevFrozen) ? ":orientation-changed-cell" : "";
        std::string suffixRet = (fl && fz <= firstHpwl) ? ":orientation-changed-cell" : "";
        prevFrozen = fz;
        if (h > prevHpwl)
          sink.add(std::string("hpwl-increase-") + where + suffix,
                   "hpwl rose from " + std::to_string(prevHpwl) + " to " + std::to_string(h) + " " + where + " #" + std::to_string(nCb) + ": " + placementStr(c) + " | " + describe(s));
        if (std::string(where) == "on-return" && h > firstHpwl)
          sink.add(std::string("hpwl-worse-than-legalized") + suffixRet,
                   "hpwl " + std::to_string(h) + " on return > legalized " + std::to_string(firstHpwl) + ": " + placementStr(c) + " | " + describe(s));
        prevHpwl = h;
        prevFlipped = fl;
      }
    }
  };
  CallResult r = guarded([&] {
    c.placeDetailed(params, [&](PlacementStep st) {
      if (st != PlacementStep::Detailed) return;
      if (nCb == 0) {
        tallX = c.cellX(); tallY = c.cellY();
        tallO.clear();
        for (auto o : c.cellOrientation()) tallO.push_back((int)o);
        firstOrient = tallO;
      }
      observe("at-callback");
      ++nCb;
    });
  });
  ctx.count("callbacks_observed", nCb);
  if (r.threw) {
    ctx.count("placeDetailed_threw");
    if (!lr.threw && mode == M_C02)
      sink.add("throws-although-legalize-accepts", "placeDetailed threw '" + r.what + "' but legalize accepts | " + describe(s));
    if (!r.stdExc) sink.add("non-std-exception", describe(s));
    return;
  }
  if (lr.threw) {
    if (mode == M_C02) sink.add("returns-although-legalize-refuses", describe(s));
    return;
  }
  if (nCb == 0) return;
  observe("on-return");
  bool changed = c.cellX() != leg.cellX() || c.cellY() != leg.cellY();
  if (changed) { ctx.count("runs_where_detailed_moved_a_cell"); ctx.nontrivial(hashSpec(s)); }
}

// ------------------------------------------------------------------ (b) DetailedPlacement moves
inline std::string canonPlacement(const DetailedPlacement &p) {
  std::string k;
  for (int c = 0; c < p.nbCells(); ++c) {
    k += std::to_string(p.cellRow_[c]) + "," + std::to_string(p.cellX_[c]) + "," + std::to_string((int)p.cellOrientation_[c]) + ";";
  }
  return k;
}

// mirror oracle: rows as sorted lists rebuilt from the accessors
inline std::string mirrorLegality(const DetailedPlacement &p) {
  std::vector<std::vector<std::pair<int, int>>> rows(p.nbRows());
  for (int c = 0; c < p.nbCells(); ++c) {
    if (p.isIgnored(c)) continue;
    int r = p.cellRow(c);
    if (r < 0 || r >= p.nbRows()) return "cell-without-row";
    if (p.cellY(c) != p.rows()[r].minY) return "y-differs-from-row";
    rows[r].push_back({p.cellX(c), p.cellWidth(c)});
  }
  for (int r = 0; r < p.nbRows(); ++r) {
    std::sort(rows[r].begin(), rows[r].end());
    int prevEnd = p.rows()[r].minX;
    for (auto &xw : rows[r]) {
      if (xw.first < prevEnd) return rows[r].front() == xw ? "before-row-start" : "overlap";
      prevEnd = xw.first + xw.second;
    }
    if (prevEnd > p.rows()[r].maxX) return "after-row-end";
    // linked list order equals x order
    std::vector<int> lst = p.rowCells(r);
    if (lst.size() != rows[r].size()) return "row-list-size";
    for (size_t i = 0; i < lst.size(); ++i)
      if (p.cellX(lst[i]) != rows[r][i].first) return "row-list-order";
  }
  return "";
}

inline std::string mirrorPolarity(const DetailedPlacement &p, const std::vector<int> &orient0) {
  for (int c = 0; c < p.nbCells(); ++c) {
    if (p.isIgnored(c)) continue;
    int o = (int)p.cellOrientation(c);
    if (o == 8) return "INVALID-orientation";
    int pol = (int)p.cellRowPolarity(c);
    if (pol == 0) {
      if (o != orient0[c]) return "any-cell-reoriented";
      continue;
    }
    int want = prescribedOrientation(pol, (int)p.rows()[p.cellRow(c)].orientation);
    if (want == -1) return "cell-on-forbidden-row";
    if (want != o) return "wrong-orientation-for-row";
  }
  return "";
}

struct Move { int kind, a, b, c; };  // 0 swap(a,b); 1 insert(a,row=b,pred=c)

inline void applyMove(DetailedPlacement &p, const Move &m) {
  if (m.kind == 0) p.swap(m.a, m.b);
  else p.insert(m.a, m.b, m.c);
}

inline std::string moveStr(const Move &m) {
  return m.kind == 0 ? "swap(" + std::to_string(m.a) + "," + std::to_string(m.b) + ")"
                     : "insert(" + std::to_string(m.a) + ",row" + std::to_string(m.b) + ",pred" + std::to_string(m.c) + ")";
}

inline void evalMoves(const Spec &s, vf::Ctx &ctx, Mode mode, Sink &sink, int maxStates) {
  ColoquinteParameters params = makeParams(s);
  Circuit c = build(s);
  CallResult lr = guarded([&] { c.legalize(params); });
  if (lr.threw || !legality(c).empty()) { ctx.count("hist_b_skipped_not_legalizable"); return; }
  std::optional<DetailedPlacement> init;
  CallResult br = guarded([&] { init.emplace(DetailedPlacement::fromIspdCircuit(c)); });
  if (br.threw) {
    if (mode == M_C02) sink.add("detailed-placement-construction-throws", br.what + " | " + describe(s));
    return;
  }
  std::vector<int> orient0;
  for (int i = 0; i < init->nbCells(); ++i) orient0.push_back((int)init->cellOrientation(i));
  // with a polarity the orientation at start must already be the prescribed one (legalized)
  struct St { DetailedPlacement p; int parent; Move via; int depth; };
  std::vector<St> states;
  std::unordered_map<std::string, int> seen;
  states.push_back({*init, -1, {0, 0, 0, 0}, 0});
  seen[canonPlacement(*init)] = 0;
  auto history = [&](int idx) {
    std::vector<Move> h;
    for (int i = idx; states[i].parent >= 0; i = states[i].parent) h.push_back(states[i].via);
    std::reverse(h.begin(), h.end());
    return h;
  };
  auto histStr = [&](int idx, const Move *extra) {
    std::string r;
    for (auto &m : history(idx)) r += moveStr(m) + " ";
    if (extra) r += moveStr(*extra);
    return r;
  };
  auto checkState = [&](const DetailedPlacement &p, int parentIdx, const Move *via) {
    if (mode == M_C02) {
      std::string why = mirrorLegality(p);
      if (!why.empty()) sink.add("move-state-illegal:" + why, "after " + histStr(parentIdx, via) + " | " + describe(s));
      CallResult cr = guarded([&] { p.check(); });
      if (cr.threw) sink.add("move-state-fails-check", cr.what + " after " + histStr(parentIdx, via) + " | " + describe(s));
    }
    if (mode == M_C04) {
      std::string why = mirrorPolarity(p, orient0);
      if (!why.empty()) sink.add("move-state-polarity:" + why, "after " + histStr(parentIdx, via) + " | " + describe(s));
    }
  };
  checkState(*init, 0, nullptr);
  int maxDepth = 0;
  bool capped = false;
  for (size_t cur = 0; cur < states.size(); ++cur) {
    if ((int)states.size() > maxStates) { capped = true; break; }
    const DetailedPlacement base = states[cur].p;
    std::vector<int> cells;
    for (int i = 0; i < base.nbCells(); ++i)
      if (!base.isIgnored(i)) cells.push_back(i);
    std::vector<Move> moves;
    for (size_t i = 0; i < cells.size(); ++i)
      for (size_t j = 0; j < cells.size(); ++j) {
        if (i == j) continue;
        bool can = false;
        CallResult r = guarded([&] { can = base.canSwap(cells[i], cells[j]); });
        if (!r.threw && can) moves.push_back({0, cells[i], cells[j], 0});
      }
    for (int cc : cells)
      for (int row = 0; row < base.nbRows(); ++row) {
        std::vector<int> preds = {-1};
        for (int x : base.rowCells(row)) preds.push_back(x);
        for (int pred : preds) {
          bool can = false;
          CallResult r = guarded([&] { can = base.canInsert(cc, row, pred); });
          if (!r.threw && can) moves.push_back({1, cc, row, pred});
        }
      }
    for (const Move &m : moves) {
      DetailedPlacement q = base;
      CallResult r = guarded([&] { applyMove(q, m); });
      ctx.count("transitions");
      if (r.threw) {
        if (mode == M_C02) sink.add("announced-move-throws", r.what + " on " + histStr(cur, &m) + " | " + describe(s));
        continue;
      }
      checkState(q, cur, &m);
      std::string k = canonPlacement(q);
      if (seen.count(k)) continue;
      int idx = states.size();
      seen[k] = idx;
      states.push_back({q, (int)cur, m, states[cur].depth + 1});
      maxDepth = std::max(maxDepth, states[cur].depth + 1);
      // validate the trace against the implementation: replay from the initial object
      DetailedPlacement rp = *init;
      for (auto &hm : history(idx)) applyMove(rp, hm);
      if (canonPlacement(rp) != k) sink.add("HARNESS-replay-diverges", histStr(idx, nullptr) + " | " + describe(s));
      ctx.count("traces_validated_against_impl");
    }
  }
  ctx.count("states", states.size());
  ctx.countMax("max:depth_moves", maxDepth);
  if (capped) ctx.count("hist_b_graphs_capped");
  else ctx.count("hist_b_graphs_closed");
  if (states.size() > 1) ctx.nontrivial(hashSpec(s));
}

// ------------------------------------------------------------------ (c) DetailedPlacer passes
struct Pass { int kind, a, b; };  // 0 swaps(rows,nb) 1 inserts 2 shifts(nbRows,maxCells) 3 reordering(rows,maxCells)

inline std::string passStr(const Pass &p) {
  static const char *n[4] = {"runSwaps", "runInserts", "runShifts", "runReordering"};
  return std::string(n[p.kind]) + "(" + std::to_string(p.a) + "," + std::to_string(p.b) + ")";
}

inline void applyPass(DetailedPlacer &pl, const Pass &p) {
  switch (p.kind) {
    case 0: pl.runSwaps(p.a, p.b); break;
    case 1: pl.runInserts(p.a, p.b); break;
    case 2: pl.runShifts(p.a, p.b); break;
    case 3: pl.runReordering(p.a, p.b); break;
  }
}

inline std::vector<Pass> passMenu(bool thorough) {
  std::vector<Pass> m = {{0, 0, 1}, {0, 1, 2}, {0, 2, 4}, {1, 0, 1}, {1, 1, 2}, {1, 2, 4}, {2, 2, 2}, {2, 3, 5},
                         {3, 1, 2}, {3, 1, 3}, {3, 2, 3}};
  if (thorough) {
    m.push_back({2, 1, 3}); m.push_back({2, 5, 3}); m.push_back({3, 2, 4}); m.push_back({3, 3, 2}); m.push_back({0, 1, 0});
    // (runShifts with a window of 0 cells is not offered: its row loop advances by the window size, and the public entry point
    //  only calls it with at least 2 cells)
    m.push_back({1, 2, 0}); m.push_back({2, 2, 1}); m.push_back({3, 1, 1});
  }
  return m;
}

inline std::string canonPlacer(const DetailedPlacer &pl) {
  std::string k = canonPlacement(pl.placement_);
  k += "|" + std::to_string(pl.xtopo_.value()) + "," + std::to_string(pl.ytopo_.value());
  return k;
}

inline void evalPasses(const Spec &s, vf::Ctx &ctx, Mode mode, Sink &sink, int maxDepth, bool thorough) {
  ColoquinteParameters params = makeParams(s);
  Circuit c = build(s);
  CallResult lr = guarded([&] { c.legalize(params); });
  if (lr.threw || !legality(c).empty()) { ctx.count("hist_c_skipped_not_legalizable"); return; }
  std::vector<int> orientInput;
  for (auto &cs : s.cells) orientInput.push_back(cs.orient);
  std::vector<int> orientLegal;
  for (auto o : c.cellOrientation()) orientLegal.push_back((int)o);
  std::optional<DetailedPlacer> init;
  CallResult br = guarded([&] { init.emplace(c, params); });
  if (br.threw) {
    if (mode == M_C02) sink.add("detailed-placer-construction-throws", br.what + " | " + describe(s));
    return;
  }
  long long hpwl0 = c.hpwl();
  if (mode == M_C05 || mode == M_C09) {
    // model value equals from-scratch wirelength on nets of >= 2 pins (documented scope)
    long long ref = refHpwl(c, true);
    if (init->value() != ref)
      sink.add("model-value-differs-initially", "DetailedPlacer::value() " + std::to_string(init->value()) + " != " + std::to_string(ref) + " | " + describe(s));
  }
  struct St { DetailedPlacer p; int parent; Pass via; int depth; long long hpwl; bool flipped; };
  std::vector<St> states;
  std::unordered_map<std::string, int> seen;
  states.push_back({*init, -1, {0, 0, 0}, 0, hpwl0, false});
  seen[canonPlacer(*init)] = 0;
  std::vector<Pass> menu = passMenu(thorough);
  auto history = [&](int idx) {
    std::vector<Pass> h;
    for (int i = idx; states[i].parent >= 0; i = states[i].parent) h.push_back(states[i].via);
    std::reverse(h.begin(), h.end());
    return h;
  };
  auto histStr = [&](int idx, const Pass *extra) {
    std::string r;
    for (auto &m : history(idx)) r += passStr(m) + " ";
    if (extra) r += passStr(*extra);
    return r;
  };
  int deepest = 0;
  for (size_t cur = 0; cur < states.size(); ++cur) {
    if (states[cur].depth >= maxDepth) continue;
    for (const Pass &pm : menu) {
      DetailedPlacer q(states[cur].p);
      CallResult r = guarded([&] { applyPass(q, pm); });
      ctx.count("transitions");
      if (r.threw) {
        if (mode == M_C02 || mode == M_C09) sink.add("pass-throws", r.what + " on " + histStr(cur, &pm) + " | " + describe(s));
        continue;
      }
      Circuit ex = c;
      q.exportPlacement(ex);
      long long h = ex.hpwl();
      bool flipped = false;
      for (int i = 0; i < ex.nbCells(); ++i)
        if (!ex.cellIsFixed()[i] && (int)ex.cellOrientation()[i] != orientLegal[i]) flipped = true;
      if (mode == M_C02) {
        CallResult cr = guarded([&] { q.check(); });
        if (cr.threw) sink.add("placer-state-fails-check", cr.what + " after " + histStr(cur, &pm) + " | " + describe(s));
        std::string why = legality(ex);
        if (!why.empty()) sink.add("pass-state-illegal:" + why, "after " + histStr(cur, &pm) + ": " + placementStr(ex) + " | " + describe(s));
        for (int i = 0; i < ex.nbCells(); ++i)
          if (!ex.cellIsFixed()[i] && placedH(ex, i) != rowHeightOf(ex) &&
              (ex.cellX()[i] != c.cellX()[i] || ex.cellY()[i] != c.cellY()[i]))
            sink.add("multi-row-cell-moved", "after " + histStr(cur, &pm) + " | " + describe(s));
      }
      if (mode == M_C04) {
        std::string why = polarityCheck(ex, orientInput);
        if (!why.empty()) sink.add("pass-state-polarity:" + why, "after " + histStr(cur, &pm) + ": " + placementStr(ex) + " | " + describe(s));
      }
      if (mode == M_C09) {
        CallResult cr = guarded([&] { q.check(); });
        if (cr.threw) sink.add("placer-state-fails-check", cr.what + " after " + histStr(cur, &pm) + " | " + describe(s));
        if (!flipped) {
          long long ref = refHpwl(ex, true);
          if (q.value() != ref)
            sink.add("model-value-drifts", "value() " + std::to_string(q.value()) + " != from-scratch " + std::to_string(ref) + " after " + histStr(cur, &pm) + " | " + describe(s));
        }
      }
      if (mode == M_C05) {
        if (h > states[cur].hpwl) {
          // model value = wirelength with the legalized orientations; the recorded finding is a real
          // increase that the model (which did not increase) cannot see because a cell flipped
          bool modelRose = q.value() > states[cur].p.value();
          std::string suffix = ((flipped || states[cur].flipped) && !modelRose) ? ":orientation-changed-cell" : "";
          sink.add("pass-increases-hpwl" + suffix, "hpwl " + std::to_string(states[cur].hpwl) + " -> " + std::to_string(h) + " by " + histStr(cur, &pm) + ": " + placementStr(ex) + " | " + describe(s));
        }
        if (!flipped) {
          long long ref = refHpwl(ex, true);
          if (q.value() != ref)
            sink.add("model-value-drifts", "value() " + std::to_string(q.value()) + " != from-scratch " + std::to_string(ref) + " after " + histStr(cur, &pm) + " | " + describe(s));
        }
      }
      std::string k = canonPlacer(q);
      if (seen.count(k)) continue;
      int idx = states.size();
      seen[k] = idx;
      states.push_back({q, (int)cur, pm, states[cur].depth + 1, h, flipped});
      deepest = std::max(deepest, states[cur].depth + 1);
      // validate the trace: replay the pass history on a fresh placer
      DetailedPlacer rp(*init);
      for (auto &hp : history(idx)) applyPass(rp, hp);
      if (canonPlacer(rp) != k) sink.add("HARNESS-replay-diverges", histStr(idx, nullptr) + " | " + describe(s));
      ctx.count("traces_validated_against_impl");
    }
  }
  ctx.count("states", states.size());
  ctx.countMax("max:depth_passes", deepest);
  if (states.size() > 1) ctx.nontrivial(hashSpec(s) ^ 0x5555);
}

// ------------------------------------------------------------------ shared instance space
// aux: 0 top-level, 1 moves graph, 2 pass graph
inline void enumerateDetailed(bool thorough, Mode mode, const std::function<void(const Spec &)> &f0) {
  // every 61st top-level instance is also explored translated beyond 2^24 (odd offsets: float loses the unit there) and
  // scaled by (9001, 11003)
  auto f = withMagnitudes(f0, 61, {{0, 40000001, 20000003}, {1, 9001, 11003}}, [](const Spec &s) { return s.aux == 0; });
  auto withNets = [&](const Spec &s, int level, const std::function<void(const Spec &)> &g) {
    if (mode != M_C05) {
      // one fixed net set so that the optimiser has something to do
      auto menu = netMenu(s, 0);
      Spec t = s;
      t.nets = menu[std::min<size_t>(menu.size() - 1, 2)];
      g(t);
      return;
    }
    for (auto &nets : netMenu(s, level)) {
      if (nets.empty()) continue;
      Spec t = s;
      t.nets = nets;
      g(t);
    }
  };
  // (m) medium-size family (12..40 cells on 4..10 rows): every third member of the grid at the default parameters, every
  // ninth also with multi-row reordering and wide shift/search windows
  {
    MediumCfg mc;
    mc.stride = thorough ? 1 : 3;
    int k = 0;
    enumerateMedium(mc, [&](const Spec &s) {
      Spec u = s;
      u.aux = 0;
      f0(u);
      if (k++ % 3 == 0) {
        Spec v = u;
        v.devs.push_back({F_reorderingMaxNbCells, 4});
        v.devs.push_back({F_reorderingNbRows, 2});
        v.devs.push_back({F_shiftMaxNbCells, 30});
        v.devs.push_back({F_lsNeighbours, 6});
        f0(v);
        Spec w = u;  // small shift windows: the cells of a row group are cut into several sub-problems
        w.devs.push_back({F_shiftMaxNbCells, 12});
        f0(w);
      }
    });
  }
  // (l) large family (120 and 400 cells): default parameters, and small shift windows
  enumerateLarge([&](const Spec &s) {
    Spec u = s;
    u.aux = 0;
    f0(u);
    Spec w = u;
    w.devs.push_back({F_shiftMaxNbCells, 20});
    w.devs.push_back({F_reorderingMaxNbCells, 3});
    f0(w);
  });
  // (a) top level: base cross product + deviations
  Cfg a;
  a.rhs = {2};
  a.minCells = 2;
  a.maxCells = thorough ? 4 : 3;
  a.hmults = {1, 2};
  a.maxTall = 1;
  a.pointLevel = thorough ? 1 : 0;
  a.thoroughLayouts = thorough;
  a.nondecreasing = !thorough;
  if (thorough) {
    Cfg a4 = a;
    a4.minCells = 4; a4.pointLevel = 0; a4.nondecreasing = true; a4.hmults = {1};
    enumerateBase(a4, [&](const Spec &s, const Layout &, int) {
      withNets(s, 0, [&](const Spec &t) { Spec u = t; u.aux = 0; f(u); });
    });
    a.maxCells = 3;
  }
  DevMenu m;
  m.params = detailedParamMenu();
  for (auto &pa : legalizeParamMenu()) m.params.push_back(pa);
  m.efforts = {1, 9};
  if (mode == M_C04) m.orientation = false;
  enumerateBase(a, [&](const Spec &base, const Layout &l, int rh) {
    withNets(base, 1, [&](const Spec &t) {
      Spec u = t;
      u.aux = 0;
      f(u);
      // reordering enabled by default deviation: the interesting non-default mode
      Spec v = u;
      v.devs.push_back({F_reorderingMaxNbCells, 3});
      v.devs.push_back({F_reorderingNbRows, 2});
      f(v);
    });
    // deviations on the first net set only
    Spec b0 = base;
    auto menu = netMenu(base, 0);
    b0.nets = menu[std::min<size_t>(menu.size() - 1, mode == M_C05 ? 3 : 2)];
    enumerateDeviations(b0, l, rh, m, [&](const Spec &s1) {
      Spec u = s1;
      u.aux = 0;
      // adding a fixed cell in front shifts cell indices of the nets: rebuild them
      if (s1.cells.size() != base.cells.size() && s1.cells[0].fixed && !base.cells[0].fixed)
        for (auto &nt : u.nets)
          for (auto &p : nt.pins) p[0] += 1;
      f(u);
      bool hasPolarity = false;
      for (auto &cs : u.cells) hasPolarity |= cs.polarity != 0;
      if (thorough || mode == M_C04 || hasPolarity) {
        Spec v = u;
        v.devs.push_back({F_reorderingMaxNbCells, 3});
        v.devs.push_back({F_reorderingNbRows, 2});
        f(v);
      }
    });
  });
  // polarity as a primary dimension (C04): every polarity tuple on row-high and 2-row cells
  if (mode == M_C04 || thorough) {
    // two cells: both may be multi-row, positions include outside the rows (cells pushed sideways by the macro pass)
    Cfg p2;
    p2.rhs = {2};
    p2.minCells = 2;
    p2.maxCells = 2;
    p2.widths = {1, 2};
    p2.hmults = thorough ? std::vector<int>{1, 2, 3} : std::vector<int>{1, 2};
    p2.maxTall = 2;
    p2.pointLevel = 1;
    p2.nondecreasing = false;
    p2.thoroughLayouts = thorough;
    enumerateBase(p2, [&](const Spec &base, const Layout &, int) {
      for (int pa = 0; pa < 5; ++pa)
        for (int pb = 0; pb < 5; ++pb) {
          if (pa == 0 && pb == 0) continue;
          Spec s = base;
          s.cells[0].polarity = pa;
          s.cells[1].polarity = pb;
          NetSpec nt; nt.pins = {{0, 0, 0}, {1, 1, 0}};
          s.nets = {nt};
          s.aux = 0;
          f(s);
        }
    });
    Cfg p;
    p.rhs = {2};
    p.minCells = 3;
    p.maxCells = 3;
    p.widths = {1, 2};
    p.hmults = {1, 2};
    p.maxTall = 1;
    p.pointLevel = 0;
    p.thoroughLayouts = thorough;
    enumerateBase(p, [&](const Spec &base, const Layout &, int) {
      int n = base.cells.size();
      std::vector<int> radix(n, 5);
      for (vf::Odometer od(radix); !od.done; od.next()) {
        Spec s = base;
        bool any = false;
        for (int i = 0; i < n; ++i) { s.cells[i].polarity = od.v[i]; any |= od.v[i] != 0; }
        if (!any) continue;
        auto menu = netMenu(s, 0);
        s.nets = menu[std::min<size_t>(menu.size() - 1, 2)];
        s.aux = 0;
        f(s);
        Spec v = s;
        v.devs.push_back({F_reorderingMaxNbCells, 3});
        v.devs.push_back({F_reorderingNbRows, 2});
        f(v);
        // the same tuple behind a fixed cell of lower index (per-cell vectors of the movable cells are compacted by the
        // legalizer: an index shift between circuit cells and legalizer cells)
        Spec w = s;
        CellSpec pad; pad.w = 1; pad.h = 2; pad.x = s.rows[0].maxX + 3; pad.y = s.rows[0].minY; pad.fixed = true; pad.polarity = 0;
        w.cells.insert(w.cells.begin(), pad);
        for (auto &nt : w.nets) for (auto &pp : nt.pins) pp[0] += 1;
        f(w);
      }
    });
  }
  // attractor nets: every cell is pulled towards one of four fixed terminals at the corners of the rows (or towards
  // nothing), so that every cross-row / cross-segment preference of the optimiser is exercised, with and without
  // multi-row reordering windows, for every polarity tuple
  {
    Cfg at;
    at.rhs = {2};
    at.minCells = 2;
    at.maxCells = thorough ? 3 : 2;
    at.widths = {1, 2};
    at.hmults = {1};
    at.pointLevel = 0;
    at.nondecreasing = false;
    at.thoroughLayouts = false;
    at.layoutFilter = {1, 2, 5, 6, 8, 12};
    enumerateBase(at, [&](const Spec &base, const Layout &l, int rh) {
      int n = base.cells.size();
      if (n == 3) {  // three cells: only the two diagonal position tuples
        bool d1 = true, d2 = true;
        auto P = pointSet(l, rh, 0);
        for (int i = 0; i < n; ++i) {
          if (base.cells[i].x != P[i % P.size()].first || base.cells[i].y != P[i % P.size()].second) d1 = false;
          if (base.cells[i].x != P[(n - 1 - i) % P.size()].first || base.cells[i].y != P[(n - 1 - i) % P.size()].second) d2 = false;
        }
        if (!d1 && !d2) return;
      }
      std::vector<int> polRadix(n, 5), atRadix(n, 5);
      for (vf::Odometer po(polRadix); !po.done; po.next()) {
        int nonAny = 0;
        for (int i = 0; i < n; ++i) nonAny += po.v[i] != 0;
        if (mode == M_C05 && nonAny > 0) continue;  // C05: orientation flips are the recorded finding; keep the cells free
        if (n == 3 && nonAny > 2) continue;
        for (vf::Odometer ao(atRadix); !ao.done; ao.next()) {
          bool any = false;
          for (int i = 0; i < n; ++i) any |= ao.v[i] != 0;
          if (!any) continue;
          Spec s = base;
          for (int i = 0; i < n; ++i) s.cells[i].polarity = po.v[i];
          int top = l.y0 + (l.nY - 1) * rh;
          int tx[4] = {l.x0 - 1, l.x0 + l.W + 1, l.x0 - 1, l.x0 + l.W + 1}, ty[4] = {l.y0, l.y0, top, top};
          for (int k = 0; k < 4; ++k) { CellSpec t; t.w = 0; t.h = 0; t.x = tx[k]; t.y = ty[k]; t.fixed = true; s.cells.push_back(t); }
          for (int i = 0; i < n; ++i)
            if (ao.v[i]) { NetSpec nt; nt.pins = {{i, 0, 0}, {n + ao.v[i] - 1, 0, 0}}; s.nets.push_back(nt); }
          s.aux = 0;
          f(s);
          Spec v = s;
          v.devs.push_back({F_reorderingMaxNbCells, 3});
          v.devs.push_back({F_reorderingNbRows, 2});
          f(v);
        }
      }
    });
  }
  // multi-row reordering windows only evaluate assignments in which every region holds at least two cells in a
  // non-ascending order, so they need four cells and reorderingMaxNbCells >= 4 to do anything: two rows, four
  // row-high cells, every position tuple, one polarised cell pulled to a corner (+ optionally a second pulled cell)
  {
    Cfg r4;
    r4.rhs = {2};
    r4.minCells = 4;
    r4.maxCells = 4;
    r4.widths = {1, 2};
    r4.hmults = {1};
    r4.pointLevel = 0;
    r4.nondecreasing = false;
    r4.layoutFilter = thorough ? std::vector<int>{1, 6, 8, 12} : std::vector<int>{1, 12};
    enumerateBase(r4, [&](const Spec &base, const Layout &l, int rh) {
      int n = 4;
      // widths: all 1, all 2, or 1,2,1,2
      int w0 = base.cells[0].w, w1 = base.cells[1].w, w2 = base.cells[2].w, w3 = base.cells[3].w;
      bool uniform = w0 == w1 && w1 == w2 && w2 == w3, alt = w0 == 1 && w1 == 2 && w2 == 1 && w3 == 2;
      if (!uniform && !alt) return;
      int top = l.y0 + (l.nY - 1) * rh;
      int tx[4] = {l.x0 - 1, l.x0 + l.W + 1, l.x0 - 1, l.x0 + l.W + 1}, ty[4] = {l.y0, l.y0, top, top};
      auto emit = [&](int polCell, int pol, int a1, int otherCell, int a2) {
        Spec s = base;
        if (polCell >= 0) s.cells[polCell].polarity = pol;
        for (int k = 0; k < 4; ++k) { CellSpec t; t.w = 0; t.h = 0; t.x = tx[k]; t.y = ty[k]; t.fixed = true; s.cells.push_back(t); }
        if (polCell >= 0 || a1 > 0) { NetSpec nt; nt.pins = {{std::max(polCell, 0), 0, 0}, {n + a1 - 1, 0, 0}}; s.nets.push_back(nt); }
        if (otherCell >= 0) { NetSpec nt; nt.pins = {{otherCell, 0, 0}, {n + a2 - 1, 0, 0}}; s.nets.push_back(nt); }
        s.devs.push_back({F_reorderingMaxNbCells, 4});
        s.devs.push_back({F_reorderingNbRows, 2});
        s.aux = 0;
        f(s);
      };
      if (mode != M_C05)
        for (int pc = 0; pc < n; ++pc)
          for (int pol = 1; pol <= 4; ++pol)
            for (int a1 = 1; a1 <= 4; ++a1) {
              emit(pc, pol, a1, -1, 0);
              for (int oc = 0; oc < n; ++oc)
                for (int a2 = 1; a2 <= 4; ++a2)
                  if (oc != pc && (thorough || (oc + a2 + a1) % 2 == 0)) emit(pc, pol, a1, oc, a2);
            }
      // no polarity: cell 0 (and one other) pulled
      for (int a1 = 1; a1 <= 4; ++a1)
        for (int oc = 1; oc < n; ++oc)
          for (int a2 = 1; a2 <= 4; ++a2) emit(-1, 0, a1, oc, a2);
    });
  }
  // total wirelength beyond 2^31 inside the supported magnitude range: many long nets between fixed terminals
  if (mode == M_C05) {
    Cfg lg;
    lg.rhs = {2};
    lg.minCells = 3;
    lg.maxCells = 3;
    lg.widths = {1, 2};
    lg.hmults = {1};
    lg.pointLevel = 0;
    lg.diagonalPositionsOnly = true;
    lg.layoutFilter = {0, 1, 6};
    enumerateBase(lg, [&](const Spec &base, const Layout &, int) {
      Spec s = base;
      int n = s.cells.size();
      auto menu = netMenu(s, 1);
      for (size_t k = 1; k < menu.size(); ++k) {
        Spec t = s;
        t.nets = menu[k];
        CellSpec a, b;
        a.w = a.h = 0; a.fixed = true; a.x = -(1 << 22); a.y = -(1 << 22);
        b = a; b.x = (1 << 22); b.y = (1 << 22);
        t.cells.push_back(a);
        t.cells.push_back(b);
        for (int i = 0; i < 140; ++i) { NetSpec nt; nt.pins = {{n, 0, 0}, {n + 1, 0, 0}}; t.nets.push_back(nt); }
        t.aux = 0;
        for (int reorder = 0; reorder < 2; ++reorder) {
          Spec u = t;
          if (reorder) { u.devs.push_back({F_reorderingMaxNbCells, 3}); u.devs.push_back({F_reorderingNbRows, 2}); }
          f(u);
        }
      }
    });
  }
  // (b) move graphs and (c) pass graphs: row-high cells, polarities, small layouts
  if (mode != M_C05) {
    Cfg b;
    b.rhs = {2};
    b.minCells = 2;
    b.maxCells = thorough ? 4 : 3;
    b.widths = {1, 2};
    b.hmults = {1};
    b.pointLevel = 0;
    b.thoroughLayouts = thorough;
    b.diagonalPositionsOnly = true;  // the graph is closed under moves: the start only selects the component
    enumerateBase(b, [&](const Spec &base, const Layout &, int) {
      int n = base.cells.size();
      // polarity tuples: all-ANY, plus every tuple over {ANY,SAME,OPPOSITE,NW,SE} with <= 2 non-ANY (quick) / all (thorough)
      std::vector<int> radix(n, 5);
      for (vf::Odometer od(radix); !od.done; od.next()) {
        int non = 0;
        for (int i = 0; i < n; ++i) non += od.v[i] != 0;
        if (!thorough && non > 2) continue;
        if (thorough && n == 4 && non > 2) continue;
        // collapse duplicates: only the first position tuple varies the polarity
        Spec s = base;
        for (int i = 0; i < n; ++i) s.cells[i].polarity = od.v[i];
        s.aux = 1;
        f(s);
      }
    });
  }
  {
    Cfg cc;
    cc.rhs = {2};
    cc.minCells = 2;
    cc.maxCells = thorough ? 4 : 3;
    cc.widths = {1, 2};
    cc.hmults = {1};
    cc.pointLevel = 0;
    cc.thoroughLayouts = false;
    enumerateBase(cc, [&](const Spec &base, const Layout &, int) {
      int n = base.cells.size();
      std::vector<std::vector<int>> pols = {std::vector<int>(n, 0), std::vector<int>(n, 1), std::vector<int>(n, 2)};
      { std::vector<int> mixed(n, 0); mixed[0] = 1; mixed[n - 1] = 2; pols.push_back(mixed); }
      if (mode == M_C04) { std::vector<int> p3(n, 3); pols.push_back(p3); std::vector<int> p4(n, 0); p4[0] = 4; pols.push_back(p4); }
      for (auto &pv : pols) {
        Spec s = base;
        for (int i = 0; i < n; ++i) s.cells[i].polarity = pv[i];
        auto menu = netMenu(s, 1);
        for (size_t k = 1; k < menu.size(); ++k) {
          if (mode != M_C05 && mode != M_C09 && k != 2 && k != 3) continue;
          Spec t = s;
          t.nets = menu[k];
          t.aux = 2;
          f(t);
        }
      }
    });
  }
}

inline vf::Verdicts evalDetailed(const Spec &s, vf::Ctx &ctx, Mode mode, bool thorough) {
  Sink sink;
  if (!inDomain(s)) { ctx.count("skipped_out_of_domain"); return sink.out; }
  if (s.aux == 0) { ctx.count("toplevel_runs"); evalTopLevel(s, ctx, mode, sink); }
  else if (s.aux == 1) { ctx.count("move_graphs"); evalMoves(s, ctx, mode, sink, thorough ? 60000 : 20000); }
  else { ctx.count("pass_graphs"); evalPasses(s, ctx, mode, sink, thorough ? 3 : 2, thorough); }
  return sink.out;
}

}  // namespace vd
