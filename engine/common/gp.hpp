// Global-placement alphabet: small circuits whose rows are at least four row
// heights wide (the domain of C06), with fixed cells, obstructions and nets.
#pragma once
#include "tca.hpp"

namespace vg {
using namespace vt;

struct GpShape {
  int rh, nY, W, x0, y0;
};

inline std::vector<GpShape> gpShapes(int level) {
  std::vector<GpShape> v;
  std::vector<int> rhs = {2, 4};
  std::vector<int> nys = level >= 1 ? std::vector<int>{1, 2, 4} : std::vector<int>{1, 3};
  for (int rh : rhs)
    for (int nY : nys)
      for (int wmul : {4, 7}) {
        if (level == 0 && wmul == 7 && nY != 3) continue;
        v.push_back({rh, nY, wmul * rh + (wmul == 7 ? 1 : 0), 0, 0});
        if (level >= 1 || (wmul == 4 && nY == 3)) v.push_back({rh, nY, wmul * rh + (wmul == 7 ? 1 : 0), -17, 49});
      }
  // tall and narrow areas: more density bins vertically than horizontally (appended last so that indices of the others are stable)
  v.push_back({2, 12, 8, 0, 0});
  v.push_back({2, 9, 9, 5, -30});
  if (level >= 1) v.push_back({4, 7, 16, -17, 49});
  return v;
}

inline std::vector<RowSpec> gpRows(const GpShape &g) {
  std::vector<RowSpec> r;
  for (int i = 0; i < g.nY; ++i) r.push_back(mkRow(0, g.W, i, g.rh, i % 2 ? oFS : oN, g.x0, g.y0));
  return r;
}

// cell sets (movable), as (w, hmult)
inline std::vector<std::vector<std::pair<int, int>>> gpCellSets(int level) {
  std::vector<std::vector<std::pair<int, int>>> v = {
      {{2, 1}},
      {{1, 1}, {3, 1}},
      {{2, 1}, {2, 1}, {2, 1}},
      {{1, 1}, {2, 1}, {3, 1}, {2, 2}},
  };
  if (level >= 1) {
    v.push_back({{3, 1}, {3, 1}, {3, 1}, {3, 1}});
    v.push_back({{1, 1}, {1, 2}});
    v.push_back({{4, 1}, {1, 1}, {1, 1}});
  }
  return v;
}

// fixed-cell variants: 0 none, 1 terminal with a net, 2 obstruction inside, 3 obstruction outside + terminal, 4 non-obstruction block
inline void addFixed(Spec &s, const GpShape &g, int variant) {
  auto add = [&](int w, int h, int x, int y, bool obs) {
    CellSpec c;
    c.w = w; c.h = h; c.x = x; c.y = y; c.fixed = true; c.obstruction = obs;
    s.cells.push_back(c);
  };
  switch (variant) {
    case 0: break;
    case 1: add(0, 0, g.x0 + g.W + 5, g.y0 + 1, true); break;
    case 2: add(g.rh, g.rh, g.x0 + g.rh, g.y0, true); break;
    case 3: add(3, g.rh, g.x0 - 6, g.y0, true); add(0, 0, g.x0 + 1, g.y0 + g.nY * g.rh + 3, true); break;
    case 4: add(2, 2 * g.rh, g.x0 + 1, g.y0, false); break;
  }
}

inline void addNets(Spec &s, int variant) {
  int n = s.cells.size();
  auto pin = [&](int c, int k) -> std::array<int, 3> {
    const CellSpec &cs = s.cells[c];
    switch (k % 4) {
      case 0: return {c, 0, 0};
      case 1: return {c, cs.w, cs.h};
      case 2: return {c, cs.w / 2, 1};
      default: return {c, -1, cs.h + 1};
    }
  };
  auto net = [&](std::vector<int> cells, float w = 1.0f) {
    NetSpec nt;
    nt.weight = w;
    int k = 0;
    for (int c : cells)
      if (c < n) nt.pins.push_back(pin(c, k++));
    if (!nt.pins.empty()) s.nets.push_back(nt);
  };
  switch (variant) {
    case 0: break;
    case 1: net({0, n - 1}); break;
    case 2: net({0, 1, n - 1}); net({n - 1, 0}, 2.0f); break;
    case 3: net({0, 1, 2, n - 1}); net({1, n - 1}); net({0}); break;
    case 4: net({0, 0, n - 1}); net({1, 2}, 0.5f); net({n - 1, 2, 0}); break;
  }
}

// positions: 0 all at the origin of the rows, 1 spread inside, 2 far outside / negative
inline void setPositions(Spec &s, const GpShape &g, int pattern) {
  int i = 0;
  for (auto &c : s.cells) {
    if (c.fixed) continue;
    switch (pattern) {
      case 0: c.x = g.x0; c.y = g.y0; break;
      case 1: c.x = g.x0 + (3 * i) % std::max(1, g.W - 3); c.y = g.y0 + (i % g.nY) * g.rh; break;
      default: c.x = g.x0 + (i % 2 ? 200 : -150); c.y = g.y0 + (i % 3 ? -90 : 77); break;
    }
    ++i;
  }
}

inline std::vector<ParamAlt> gpParamMenu(int level) {
  std::vector<ParamAlt> m = {
      {F_netModel, 1}, {F_netModel, 2}, {F_netModel, 3},
      {F_rlCostModel, 1}, {F_rlCostModel, 2}, {F_rlCostModel, 3}, {F_rlCostModel, 4}, {F_rlCostModel, 5},
      {F_exportBlending, -0.5}, {F_exportBlending, 0.0}, {F_exportBlending, 0.3}, {F_exportBlending, 1.0}, {F_exportBlending, 1.5},
      {F_maxNbSteps, 1}, {F_maxNbSteps, 5}, {F_maxNbSteps, 30},
      {F_seed, 1}, {F_seed, -1}, {F_noise, 0.0}, {F_noise, 2.0},
      {F_squareReoptSize, 1}, {F_squareReoptSize, 2}, {F_squareReoptSize, 5}, {F_lineReoptSize, 1}, {F_lineReoptSize, 4},
      {F_diagReoptSize, 1}, {F_diagReoptSize, 3}, {F_unidimensionalTransport, 0}, {F_binSize, 1.0}, {F_binSize, 25.0},
      {F_sideMargin, 0.0}, {F_sideMargin, 2.0}, {F_rlNbSteps, 0}, {F_rlNbSteps, 3}, {F_coarseningLimit, 0.0}, {F_coarseningLimit, 1.0},
      {F_rlTargetBlending, -0.1}, {F_rlTargetBlending, 0.9}, {F_quadraticPenalty, 0.0}, {F_quadraticPenalty, 1.0},
      {F_nbInitialSteps, 2}, {F_nbStepsBeforeRL, 3}, {F_gapTolerance, 0.0}, {F_gapTolerance, 1.0}, {F_distanceTolerance, 0.0},
      {F_penaltyUpdateDistance, 0.5}, {F_penaltyUpdateDistance, 1000.0}, {F_penaltyUpdateBackoff, 1.0},
      {F_cutoffDistance, 0.1}, {F_cutoffDistance, 1000.0}, {F_cutoffDistanceUF, 0.8}, {F_cutoffDistanceUF, 1.2},
      {F_areaExponent, 0.49}, {F_areaExponent, 1.01}, {F_initialValue, 1e-3}, {F_initialValue, 10.0}, {F_updateFactor, 1.01},
      {F_updateFactor, 1.99}, {F_penTargetBlending, 0.1}, {F_penTargetBlending, 1.1},
      {F_approximationDistance, 0.1}, {F_approximationDistance, 1000.0}, {F_approximationDistanceUF, 0.8}, {F_approximationDistanceUF, 1.2},
      {F_maxNbCG, 1}, {F_maxNbCG, 10}, {F_cgTol, 1e-6}, {F_cgTol, 1.0},
  };
  (void)level;
  return m;
}

inline Spec gpSpec(const GpShape &g, const std::vector<std::pair<int, int>> &cells, int fixedVariant, int netVariant, int posPattern) {
  Spec s;
  s.rows = gpRows(g);
  for (auto &wh : cells) {
    CellSpec c;
    c.w = wh.first;
    c.h = wh.second * g.rh;
    s.cells.push_back(c);
  }
  addFixed(s, g, fixedVariant);
  addNets(s, netVariant);
  setPositions(s, g, posPattern);
  s.seed = 0;
  return s;
}

inline void enumerateGpBase(int level, const std::function<void(const Spec &, const GpShape &)> &f) {
  auto shapes = gpShapes(level);
  auto sets = gpCellSets(level);
  for (auto &g : shapes)
    for (auto &cs : sets)
      for (int fx = 0; fx < 5; ++fx)
        for (int nv = 0; nv < 5; ++nv)
          for (int pp = 0; pp < 3; ++pp) {
            if (level == 0 && ((fx + nv + pp) % 2)) continue;  // quick: half of the product, fixed pattern
            f(gpSpec(g, cs, fx, nv, pp), g);
          }
}

// A few representative circuits for checks that only need "some" global placement runs
inline std::vector<Spec> gpRepresentatives() {
  std::vector<Spec> v;
  auto shapes = gpShapes(1);
  auto sets = gpCellSets(1);
  // shapes[6] = rh 2, 2 rows, 15 wide; [9] = 4 rows, 8 wide at (-17,49); [5] = 2 rows, 8 wide at (-17,49); [14] = rh 4, 1 row, 29 wide.
  // Every one of them can be legalized (enough rows for the tallest cell, enough width).
  v.push_back(gpSpec(shapes[6], sets[3], 1, 3, 1));
  v.push_back(gpSpec(shapes[9], sets[2], 2, 2, 0));
  v.push_back(gpSpec(shapes[5], sets[1], 3, 1, 2));
  v.push_back(gpSpec(shapes[14], sets[4], 4, 4, 1));
  return v;
}

}  // namespace vg
